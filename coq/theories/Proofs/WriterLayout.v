(* The payload-size table of the .slp writer: the hand model Model/Writer.v [payload_sizes] is the interpretation of
   the table that tools/rust2coq.py regenerates from the text of src/io/slippi/ser.rs fn payload_sizes
   (Gen/WriterSizes.v: every `sizes.push(Event::X, <size>)` with its size expression, the `if ver.gte(M, m)` gates around
   it and whether it sits under `if let Some(codes) = &game.gecko_codes`, in source order).

   If the source gates a push differently, reorders two pushes, changes a header constant, a record or an event, the
   regenerated table changes and [payload_sizes_from_source] no longer holds of the unchanged hand model. *)
From Coq Require Import List Arith NArith ZArith Lia Bool String.
From Coq.Strings Require Import Byte.
From Peppi Require Import Base.Bytes Base.Outcome Base.Stream Layout.Syntax Gen.Funs Gen.WriterSizes Layout.Sem Layout.Rows
  Model.Ubjson Model.Start Model.Json Model.Parse Model.Reader Model.Writer.
Import ListNotations.
Notation length := (@List.length _) (only parsing).
Local Open Scope N_scope.

(* size.try_into().unwrap() of PayloadSizes::push (usize -> u16) *)
Definition push_u16 (n : N) : outcome N := if 65535 <? n then Panic 401 else Ok n.

Fixpoint event_code (tbl : list (string * N)) (name : string) : option N :=
  match tbl with
  | [] => None
  | (n, c) :: r => if String.eqb n name then Some c else event_code r name
  end.

(* the value of a size expression for the game g *)
Definition psize_val (g : game) (p : psize) : N :=
  let v := st_version (g_start g) in
  match p with
  | PsStartBytes => nn (length (st_bytes (g_start g)))
  | PsEndBytesOrDefault => match g_end g with Some e => nn (length (en_bytes e)) | None => game_End_size v end
  | PsRow hdr rec => N.of_nat hdr + nn (size_fn v rec)
  | PsGeckoActualU16 => match g_gecko g with Some c => gk_actual c mod 65536 | None => 0 end
  | PsConst n => N.of_nat n
  end.

Definition gates_hold (v : version) (gs : list (N * N)) : bool := forallb (fun x => vgte v (fst x) (snd x)) gs.
Definition gecko_ok (g : game) (needs : bool) : bool :=
  if needs then match g_gecko g with Some _ => true | None => false end else true.

(* the pushes in source order: a push happens iff all its gates hold at the game's version (and the gecko codes are
   present if it sits under the `if let`); every push converts its size to u16 (Panic 401 beyond 65535) *)
Fixpoint ps_go (tbl : list (string * psize * list (N * N) * bool)) (g : game) (acc : list (N * N)) : outcome (list (N * N)) :=
  match tbl with
  | [] => Ok acc
  | (name, sz, gates, needs) :: r =>
      if gates_hold (st_version (g_start g)) gates && gecko_ok g needs then
        match event_code Event_by_name name with
        | Some c => s <- push_u16 (psize_val g sz) ;; ps_go r g (acc ++ [(c, s)])
        | None => Panic 0
        end
      else ps_go r g acc
  end.

Definition payload_sizes_of_tbl (tbl : list (string * psize * list (N * N) * bool)) (g : game) : outcome (list (N * N)) :=
  ps_go tbl g [].

Lemma bind_ext {A B} (x : outcome A) (f h : A -> outcome B) : (forall a, f a = h a) -> bind x f = bind x h.
Proof. intro H. destruct x; cbn [bind]; auto. Qed.

Lemma push_u16_mod n : push_u16 (n mod 65536) = Ok (n mod 65536).
Proof.
  unfold push_u16. assert (H : n mod 65536 < 65536) by (apply N.mod_lt; discriminate).
  destruct (N.ltb_spec 65535 (n mod 65536)) as [Hx|Hx]; [lia|reflexivity].
Qed.

Ltac ev_term x := let v := eval vm_compute in x in progress change x with v.
Ltac ev_codes :=
  repeat match goal with
  | |- context [event_code ?t ?n] => ev_term (event_code t n)
  | |- context [N.of_nat ?n] => ev_term (N.of_nat n)
  end.

Ltac bind_step := match goal with |- bind ?x _ = bind ?x _ => apply bind_ext; intro end.
Ltac ev_lt := repeat match goal with |- context [N.ltb (Npos ?a) (Npos ?b)] => ev_term (N.ltb (Npos a) (Npos b)) end.   (* literals only *)

(* THE theorem: equality on every game, panics included (all u16 conversions happen in the same order on both sides, and
   all are Panic 401).  The source tests ver.gte(3, 0) twice (around Item and again around FrameEnd), the hand model once:
   the case analysis identifies them.  The source also converts the GeckoCodes and MessageSplitter sizes to u16; these
   conversions cannot fail (a value mod 65536, the literal 516), which is [push_u16_mod] and a closed computation. *)
Theorem payload_sizes_from_source : forall g, payload_sizes g = payload_sizes_of_tbl payload_sizes_src_tbl g.
Proof.
  intro g. unfold payload_sizes, payload_sizes_of_tbl, payload_sizes_src_tbl.
  cbv zeta.
  cbn [ps_go gates_hold forallb gecko_ok fst snd andb psize_val].
  ev_codes. cbv beta iota. unfold push_u16 at 1 2 3 4 5 6 7.
  set (v := st_version (g_start g)).
  destruct (vgte v 2 2); destruct (vgte v 3 0); destruct (vgte v 3 3); destruct (g_gecko g) as [c|];
    cbn [andb ps_go];
    repeat bind_step;
    rewrite ?push_u16_mod; unfold push_u16; ev_lt; cbv beta iota; cbn [bind app];
    reflexivity.
Qed.

(* what the table says about each event, spelled out (corollaries of the table alone; kept as a readable summary) *)
Corollary payload_sizes_events_from_source :
  map (fun x => event_code Event_by_name (fst (fst (fst x)))) payload_sizes_src_tbl =
  [Some Event_GameStart; Some Event_FramePre; Some Event_FramePost; Some Event_GameEnd; Some Event_FrameStart;
   Some Event_Item; Some Event_FrameEnd; Some Event_GeckoCodes; Some Event_MessageSplitter].
Proof. vm_compute. reflexivity. Qed.

Print Assumptions payload_sizes_from_source.
Print Assumptions payload_sizes_events_from_source.
