(* Facts about the Game Start / Game End block decoders that the frame-level proofs rely on. *)
From Coq Require Import List Arith NArith ZArith Lia Bool String ZifyBool ZifyN ZifyNat FinFun.
From Coq.Strings Require Import Byte.
From Peppi Require Import Base.Bytes Base.Outcome Layout.Syntax Gen.Funs Model.Start Model.Parse Model.Reader Model.Writer Model.Recorder
  Proofs.FrameStep.
Import ListNotations.
Notation length := (@List.length _) (only parsing).

Lemma player_of_port port v0b t a b c d e p :
  player_of port v0b t a b c d e = ROk (Some p) -> pl_port p = port.
Proof.
  unfold player_of. intro H.
  repeat match type of H with
         | context [match ?x with _ => _ end] => destruct x eqn:?; try discriminate H
         end.
  all: injection H as <-; reflexivity.
Qed.

Lemma collect_ports {A} (f : nat -> res (option A)) (port_of : A -> N) :
  (forall i a, f i = ROk (Some a) -> port_of a = N.of_nat i) ->
  forall (idx : list nat) l, collect (map f idx) = ROk l ->
  exists sub, map port_of l = map N.of_nat sub /\ (forall x, In x sub -> In x idx) /\ (NoDup idx -> NoDup sub).
Proof.
  intros Hf. induction idx as [|i idx IH]; intros l H.
  - cbn in H. injection H as <-. exists []. repeat split; [intros x []|intros _; constructor].
  - cbn [map collect] in H. destruct (f i) as [[a|]| |] eqn:Hfi; try discriminate H.
    + destruct (collect (map f idx)) as [l'| |] eqn:Hc; try discriminate H. injection H as <-.
      destruct (IH l' eq_refl) as (sub & Hm & Hin & Hnd). exists (i :: sub). repeat split.
      * cbn [map]. rewrite (Hf i a Hfi), Hm. reflexivity.
      * intros x [->|Hx]; [left; reflexivity|right; apply Hin; exact Hx].
      * intro Hn. inversion Hn as [|? ? Hni Hn']; subst. constructor; [|apply Hnd; exact Hn'].
        intro Hi. apply Hni. apply Hin. exact Hi.
    + destruct (collect (map f idx)) as [l'| |] eqn:Hc; try discriminate H. injection H as <-.
      destruct (IH l' eq_refl) as (sub & Hm & Hin & Hnd). exists sub. repeat split.
      * exact Hm.
      * intros x Hx. right. apply Hin. exact Hx.
      * intro Hn. inversion Hn; subst. apply Hnd. assumption.
    + destruct (collect (map f idx)); discriminate H.
Qed.

Lemma game_start_fields blk st :
  game_start blk = ROk st ->
  st_bytes st = blk /\ st_version st = (u8_at blk 0, u8_at blk 1, u8_at blk 2) /\
  exists t10 t13 t39 t311, players_of blk t10 t13 t39 t311 = ROk (st_players st).
Proof.
  unfold game_start. intro H.
  destruct (length blk <? 320)%nat; [discriminate|].
  repeat (apply rbind_ok in H; destruct H as (? & ? & H)).
  injection H as <-. cbn [st_bytes st_version st_players mk_start]. repeat split. eauto.
Qed.

Lemma game_end_bytes blk e : game_end blk = ROk e -> en_bytes e = blk.
Proof.
  unfold game_end. intro H. destruct blk as [|b0 blk]; [discriminate|].
  repeat match type of H with
         | context [match ?x with _ => _ end] => destruct x eqn:?; try discriminate H
         end.
  all: injection H as <-; reflexivity.
Qed.

Lemma ports_nodup blk st : game_start blk = ROk st ->
  NoDup (map pl_port (st_players st)) /\ Forall (fun p => (pl_port p < 4)%N) (st_players st).
Proof.
  intro H. destruct (game_start_fields blk st H) as (_ & _ & t10 & t13 & t39 & t311 & Hp).
  unfold players_of in Hp.
  match type of Hp with collect (map ?f ?idx) = _ =>
    destruct (collect_ports f pl_port (fun i a Hi => player_of_port _ _ _ _ _ _ _ _ a Hi) idx _ Hp) as (sub & Hm & Hin & Hnd)
  end.
  split.
  - rewrite Hm. apply Injective_map_NoDup; [intros x y Hxy; lia|].
    apply Hnd. repeat constructor; cbn; intuition lia.
  - apply Forall_forall. intros p Hpin.
    assert (Hi : In (pl_port p) (map pl_port (st_players st))) by (apply in_map; exact Hpin).
    rewrite Hm in Hi. apply in_map_iff in Hi as (x & Hx & Hxin). apply Hin in Hxin. cbn in Hxin. lia.
Qed.

Lemma slots_of_nodup (ports : list (N * bool)) : NoDup (map fst ports) -> NoDup (slots_of ports).
Proof.
  induction ports as [|[p ic] r IH]; intro H; [constructor|].
  cbn [map fst] in H. inversion H as [|? ? Hni Hn]; subst.
  assert (Hnot : forall f, ~ In (p, f) (slots_of r)).
  { intros f Hin. apply Hni. unfold slots_of in Hin. apply in_flat_map in Hin as ([q qc] & Hq & Hin).
    cbn [fst snd] in Hin. apply in_map_iff. exists (q, qc). split; [|exact Hq].
    cbn [fst]. destruct qc; cbn in Hin; intuition (try congruence). }
  unfold slots_of. cbn [flat_map fst snd]. fold (slots_of r).
  destruct ic; cbn [app].
  - constructor; [|constructor; [apply Hnot|apply IH; exact Hn]].
    intros [Heq|Hin]; [discriminate|]. exact (Hnot _ Hin).
  - constructor; [apply Hnot|apply IH; exact Hn].
Qed.

Lemma slots_r_nodup blk st : game_start blk = ROk st -> NoDup (slots_of (port_occupancy st)).
Proof.
  intro H. apply slots_of_nodup. unfold port_occupancy. rewrite map_map. cbn [fst].
  exact (proj1 (ports_nodup blk st H)).
Qed.

Lemma slots_ports_small blk st : game_start blk = ROk st ->
  Forall (fun sl : N * bool => (fst sl < 256)%N) (slots_of (port_occupancy st)).
Proof.
  intro H. pose proof (proj2 (ports_nodup blk st H)) as Hp. rewrite Forall_forall in Hp.
  apply Forall_forall. intros [p f] Hin. unfold slots_of in Hin. apply in_flat_map in Hin as ([q qc] & Hq & Hin).
  unfold port_occupancy in Hq. apply in_map_iff in Hq as (pl & Heq & Hpl). injection Heq as <- <-.
  specialize (Hp pl Hpl). cbn [fst snd] in *. destruct (pl_character pl =? ICE_CLIMBERS)%N; cbn in Hin; intuition (try congruence).
  all: match goal with H : (_, _) = (_, _) |- _ => injection H as <- _; lia end.
Qed.
