(* The .slpp archive entries: the hand model Model/Slpp.v, restated THROUGH the tables that tools/rust2coq.py
   regenerates from the text of src/io/peppi/ser.rs fn write (the `tar_append(&mut tar, .., "<name>")?` sequence with its
   `if let Some(..) = &game.end / &game.gecko_codes` guards) and src/io/peppi/de.rs fn read (the arms
   `Some("<name>") => ..` of the match on the entry's file name, which arm ends with `break`, and which
   `let mut <var>: Option<..>` the arm assigns) -- Gen/SlppEntries.v.

   If the source moves an append out of (or into) a guard, reorders two appends, renames an entry on either side, or
   moves the `break`, the regenerated table changes and these theorems no longer follow from the unchanged hand model. *)
From Coq Require Import List Arith NArith ZArith Lia Bool String.
From Coq.Strings Require Import Byte.
From Peppi Require Import Base.Bytes Base.Outcome Gen.Funs Gen.SlppEntries Model.Ubjson Model.Start Model.Json Model.Parse
  Model.Reader Model.Slpp Proofs.SlppProof.
Import ListNotations.
Notation length := (@List.length _) (only parsing).
Local Open Scope string_scope.

Transparent name_of kind_of.

Ltac ev_term x := let v := eval vm_compute in x in progress change x with v.

(* ---------------------------------------------------------------------------------------------------------
   (1) the writer: the entry names, in order, are the table's names whose guard holds for the game *)
Definition is_some {A} (o : option A) : bool := match o with Some _ => true | None => false end.

Definition guard_holds (has_end has_gecko : bool) (gd : option string) : bool :=
  match gd with
  | None => true
  | Some s => if String.eqb s "end" then has_end else if String.eqb s "gecko_codes" then has_gecko else false
  end.

Definition written_names (has_end has_gecko : bool) : list (list byte) :=
  map (fun e => sb (fst e)) (filter (fun e => guard_holds has_end has_gecko (snd e)) slpp_write_entries).

Theorem slpp_write_entries_from_source enc_peppi enc_meta enc_start enc_end enc_frames c g es :
  slpp_write enc_peppi enc_meta enc_start enc_end enc_frames c g = Ok es ->
  map fst es = written_names (is_some (g_end (sg_game g))) (is_some (g_gecko (sg_game g))).
Proof.
  intro H. rewrite (slpp_entry_order _ _ _ _ _ _ _ _ H).
  destruct (g_end (sg_game g)), (g_gecko (sg_game g)); vm_compute; reflexivity.
Qed.

(* ---------------------------------------------------------------------------------------------------------
   (2) the reader: the model's dispatch on the file name is the first-match lookup in the table of match arms, each arm
   mapped to the model's branch by the Option variable it assigns *)
Definition kind_of_target (t : string) : kind :=
  if String.eqb t "peppi" then KPeppi else if String.eqb t "start" then KStartRaw else if String.eqb t "end" then KEndRaw
  else if String.eqb t "metadata" then KMeta else if String.eqb t "gecko_codes" then KGecko
  else if String.eqb t "frames" then KFrames else KOther.

Fixpoint kind_of_tbl (tbl : list (string * string)) (p : list byte) : kind :=
  match tbl with
  | [] => KOther
  | (n, t) :: r => if bytes_eqb (basename p) (sb n) then kind_of_target t else kind_of_tbl r p
  end.

Theorem slpp_read_names_from_source p : kind_of p = kind_of_tbl slpp_read_targets p.
Proof.
  unfold kind_of, name_is. cbn [kind_of_tbl slpp_read_targets].
  repeat match goal with
  | |- context [name_of ?k] => ev_term (name_of k)
  | |- context [sb ?s] => ev_term (sb s)
  | |- context [kind_of_target ?t] => ev_term (kind_of_target t)
  end.
  reflexivity.
Qed.

(* the same, name by name, with the break flag: the arms are the model's kinds in the model's order, nothing else is
   recognised (by the theorem above every other name is KOther), and the only arm that breaks is frames.arrow *)
Theorem slpp_read_kinds_from_source :
  map (fun x => (kind_of (sb (fst x)), snd x)) slpp_read_names =
    [(KPeppi, false); (KStartRaw, false); (KEndRaw, false); (KMeta, false); (KGecko, false); (KFrames, true)] /\
  map fst slpp_read_names = map fst slpp_read_targets.
Proof. split; vm_compute; reflexivity. Qed.

(* the model's reader stops exactly where the table says the loop breaks *)
Lemma kind_of_basename p q : basename p = basename q -> kind_of p = kind_of q.
Proof. intro H. unfold kind_of, name_is. rewrite H. reflexivity. Qed.

Lemma read_entries_break dp dm df skip p c r a : kind_of p = KFrames ->
  read_entries dp dm df skip ((p, c) :: r) a = read_entries dp dm df skip [(p, c)] a.
Proof. intro H. rewrite !re_cons, H. reflexivity. Qed.

Lemma read_entries_continue dp dm df skip p c r a a' : kind_of p <> KFrames ->
  read_entries dp dm df skip ((p, c) :: r) a = Ok a' -> exists a'', read_entries dp dm df skip r a'' = Ok a'.
Proof.
  intro Hk. rewrite re_cons. destruct (kind_of p); try congruence.
  - destruct (dp c) as [[[pv h] q]|]; [destruct (assert_current_version_ok pv)|]; intro H; try discriminate; eauto.
  - destruct (dm c); intro H; try discriminate; eauto.
  - intro H; eauto.
  - intro H. apply bind_ok in H as [s [_ H]]. eauto.
  - intro H; eauto.
  - intro H. apply bind_ok in H as [s [_ H]]. eauto.
  - destruct (length c <? 4)%nat; intro H; try discriminate; eauto.
  - intro H; eauto.
Qed.

Theorem slpp_break_from_source dp dm df n b : In (n, b) slpp_read_names ->
  forall skip p c r a, basename p = sb n ->
  if b then read_entries dp dm df skip ((p, c) :: r) a = read_entries dp dm df skip [(p, c)] a
  else forall a', read_entries dp dm df skip ((p, c) :: r) a = Ok a' ->
                  exists a'', read_entries dp dm df skip r a'' = Ok a'.
Proof.
  intros Hin skip p c r a Hb.
  assert (Hk : forall q, basename q = basename p -> kind_of p = kind_of q)
    by (intros q Hq; apply kind_of_basename; symmetry; exact Hq).
  cbn [In slpp_read_names] in Hin.
  repeat match type of Hin with _ \/ _ => destruct Hin as [Hin|Hin] end; try contradiction;
    inversion Hin; subst n b; cbv beta iota;
    match type of Hb with basename p = sb ?s =>
      assert (Hq : kind_of p = kind_of (sb s))
        by (apply Hk; rewrite Hb; vm_compute; reflexivity)
    end;
    match type of Hq with _ = ?k => let v := eval vm_compute in k in change k with v in Hq end;
    first [ apply read_entries_break; exact Hq
          | intros a'; apply read_entries_continue; rewrite Hq; discriminate ].
Qed.

(* ---------------------------------------------------------------------------------------------------------
   (3) the last entry the writer appends is the one entry the reader breaks on *)
Theorem slpp_last_entry_from_source enc_peppi enc_meta enc_start enc_end enc_frames c g es :
  slpp_write enc_peppi enc_meta enc_start enc_end enc_frames c g = Ok es ->
  map (fun x => sb (fst x)) (filter snd slpp_read_names) = [last (map fst es) []].
Proof.
  intro H. rewrite (slpp_write_entries_from_source _ _ _ _ _ _ _ _ H).
  destruct (is_some (g_end (sg_game g))), (is_some (g_gecko (sg_game g))); vm_compute; reflexivity.
Qed.

(* and every entry before it that the reader dispatches on is read, not skipped: the raw/metadata/peppi entries the
   writer emits are arms of the reader's match (start.json and end.json are the only written names it skips) *)
Theorem slpp_written_read_from_source has_end has_gecko :
  filter (fun nm => match kind_of nm with KOther => true | _ => false end) (written_names has_end has_gecko) =
  map sb (filter (fun s => guard_holds has_end has_gecko
                             (if String.eqb s "end.json" then Some "end" else None)) ["start.json"; "end.json"]).
Proof. destruct has_end, has_gecko; vm_compute; reflexivity. Qed.

Print Assumptions slpp_write_entries_from_source.
Print Assumptions slpp_read_names_from_source.
Print Assumptions slpp_read_kinds_from_source.
Print Assumptions slpp_break_from_source.
Print Assumptions slpp_last_entry_from_source.
Print Assumptions slpp_written_read_from_source.
