(* C09: the .slp writer refuses exactly on version grounds: Err only for versions above the maximum. *)
From Coq Require Import List Arith NArith ZArith Lia Bool String.
From Coq.Strings Require Import Byte.
From Peppi Require Import Base.Bytes Base.Outcome Base.Stream Layout.Syntax Gen.Funs Layout.Sem Layout.Rows
  Model.Ubjson Model.Start Model.Json Model.Parse Model.Reader Model.Writer.
Import ListNotations.
Notation length := (@List.length _) (only parsing).

Definition no_err {A} (x : outcome A) : Prop := match x with Err _ => False | _ => True end.

Lemma no_err_bind {A B} (x : outcome A) (f : A -> outcome B) :
  no_err x -> (forall a, x = Ok a -> no_err (f a)) -> no_err (bind x f).
Proof. destruct x; cbn; intros Hx Hf; try exact I; [apply Hf; reflexivity|contradiction]. Qed.

Lemma slp_write_refuses g : assert_max_version_ok (st_version (g_start g)) = false -> slp_write g = Err EInvalid.
Proof. intro H. unfold slp_write. rewrite H. reflexivity. Qed.

Lemma wr_str_no_err s : no_err (wr_str s).
Proof. unfold wr_str. destruct (255 <? List.length s)%nat; exact I. Qed.

Lemma write_val_no_err : forall v, no_err (write_val v).
Proof.
  fix IH 1. intros [s|n|m]; cbn [write_val].
  - apply no_err_bind; [apply wr_str_no_err|intros; exact I].
  - destruct (n <? 4294967296)%N; exact I.
  - apply no_err_bind; [|intros; exact I].
    induction m as [|[k v] r IHr]; [exact I|].
    apply no_err_bind; [apply wr_str_no_err|intros kb _].
    apply no_err_bind; [apply IH|intros vb _].
    apply no_err_bind; [exact IHr|intros; exact I].
Qed.

Lemma write_map_no_err m : no_err (write_map m).
Proof.
  induction m as [|[k v] r IH]; [exact I|]. cbn [write_map].
  apply no_err_bind; [apply wr_str_no_err|intros kb _].
  apply no_err_bind; [apply write_val_no_err|intros vb _].
  apply no_err_bind; [exact IH|intros; exact I].
Qed.

Lemma concat_out_no_err l : Forall no_err l -> no_err (concat_out l).
Proof.
  induction 1 as [|x l Hx Hl IH]; [exact I|]. cbn [concat_out].
  apply no_err_bind; [exact Hx|intros a _]. apply no_err_bind; [exact IH|intros; exact I].
Qed.

Lemma valid_at_no_err b i : no_err (valid_at b i).
Proof. unfold valid_at. destruct b as [l|]; [|exact I]. destruct (nth_error l i); exact I. Qed.
Lemma row_at_no_err r i : no_err (row_at r i).
Proof. unfold row_at. destruct (nth_error r i); exact I. Qed.

Lemma write_char_no_err v pre d i id p f : no_err (write_char v pre d i id p f).
Proof.
  unfold write_char. apply no_err_bind; [apply valid_at_no_err|intros ok _]. destruct ok; [|exact I].
  apply no_err_bind; [apply row_at_no_err|intros; exact I].
Qed.

Lemma write_slot_no_err v pre c i id : no_err (write_slot v pre c i id).
Proof.
  unfold write_slot. destruct (sl_fol c); [|apply write_char_no_err].
  apply no_err_bind; [apply valid_at_no_err|intros ok _]. destruct ok; [apply write_char_no_err|exact I].
Qed.

Lemma write_frame_no_err v fr i id : no_err (write_frame v fr i id).
Proof.
  unfold write_frame.
  apply no_err_bind.
  { destruct (vgte v 2 2); [|exact I]. destruct (f_start fr); [|exact I]. apply no_err_bind; [apply row_at_no_err|intros; exact I]. }
  intros s _. apply no_err_bind.
  { apply concat_out_no_err. apply Forall_forall. intros x Hx. apply in_map_iff in Hx as (c & <- & _). apply write_slot_no_err. }
  intros pres _. apply no_err_bind.
  { destruct (vgte v 3 0); [|exact I]. destruct (f_item_off fr) as [offs|]; [|exact I]. destruct (f_item fr) as [items|]; [|exact I].
    destruct (nth_error offs i); [|exact I]. destruct (nth_error offs (S i)); [|exact I].
    apply concat_out_no_err. apply Forall_forall. intros x Hx. apply in_map_iff in Hx as (k & <- & _).
    apply no_err_bind; [apply row_at_no_err|intros; exact I]. }
  intros its _. apply no_err_bind.
  { apply concat_out_no_err. apply Forall_forall. intros x Hx. apply in_map_iff in Hx as (c & <- & _). apply write_slot_no_err. }
  intros posts _. apply no_err_bind.
  { destruct (vgte v 3 0); [|exact I]. destruct (f_end fr); [|exact I]. apply no_err_bind; [apply row_at_no_err|intros; exact I]. }
  intros; exact I.
Qed.

Lemma write_frames_no_err v fr : no_err (write_frames v fr).
Proof.
  unfold write_frames. apply concat_out_no_err. apply Forall_forall. intros x Hx.
  apply in_map_iff in Hx as (p & <- & _). apply write_frame_no_err.
Qed.

Lemma gecko_blocks_no_err c : forall fuel pos, no_err (gecko_blocks fuel pos c).
Proof.
  induction fuel as [|f IH]; intro pos; [exact I|]. cbn [gecko_blocks].
  destruct (pos <? N.to_nat (gk_actual c))%nat; [|exact I].
  destruct (List.length (gk_bytes c) <? pos + 512)%nat; [exact I|].
  apply no_err_bind; [apply IH|intros; exact I].
Qed.

Lemma payload_sizes_no_err g : no_err (payload_sizes g).
Proof.
  unfold payload_sizes.
  repeat (apply no_err_bind; [match goal with |- no_err (if ?c then _ else _) => destruct c; exact I end|intros ? _]).
  destruct (vgte _ 2 2); [|exact I].
  apply no_err_bind; [match goal with |- no_err (if ?c then _ else _) => destruct c; exact I end|intros ? _].
  destruct (vgte _ 3 0); [|exact I].
  repeat (apply no_err_bind; [match goal with |- no_err (if ?c then _ else _) => destruct c; exact I end|intros ? _]).
  destruct (vgte _ 3 3); [|exact I]. destruct (g_gecko g); exact I.
Qed.

Lemma frame_counts_no_err fr : no_err (frame_counts fr).
Proof.
  unfold frame_counts. apply no_err_bind; [|intros; exact I].
  assert (H : forall cs acc, no_err acc ->
             no_err (fold_left (fun acc c => a <- acc ;; l <- (if (List.length (f_ids fr) <? unset_bits (c_valid (sl_data c)))%nat then Panic 402
                                                              else Ok (List.length (f_ids fr) - unset_bits (c_valid (sl_data c)))%nat) ;; Ok (a + l)%nat) cs acc)).
  { induction cs as [|c cs IH]; intros acc Hacc; [exact Hacc|]. cbn [fold_left]. apply IH.
    apply no_err_bind; [exact Hacc|intros a _]. apply no_err_bind; [destruct (_ <? _)%nat; exact I|intros; exact I]. }
  apply H. exact I.
Qed.

Lemma raw_size_no_err sizes g : no_err (raw_size sizes g).
Proof.
  unfold raw_size. apply no_err_bind; [apply frame_counts_no_err|intros [[a b] c] _].
  destruct (lookup_size sizes Event_GameStart); [|exact I]. destruct (lookup_size sizes Event_GameEnd); [|exact I].
  destruct (lookup_size sizes Event_FramePre); [|exact I]. destruct (lookup_size sizes Event_FramePost); [|exact I].
  apply no_err_bind; [|intros; exact I].
  destruct (g_gecko g); [|exact I]. unfold gecko_codes_size. destruct (negb _); exact I.
Qed.

(* the only error the .slp writer returns is the version refusal *)
Theorem slp_write_err_only_version g e :
  slp_write g = Err e -> assert_max_version_ok (st_version (g_start g)) = false /\ e = EInvalid.
Proof.
  unfold slp_write. destruct (assert_max_version_ok (st_version (g_start g))) eqn:Hv; cbn [negb].
  2:{ intro H. injection H as <-. split; reflexivity. }
  intro H. exfalso.
  assert (Hn : no_err (@Err (list byte) e)) by (rewrite <- H;
    apply no_err_bind; [apply payload_sizes_no_err|intros sizes _];
    apply no_err_bind; [apply raw_size_no_err|intros rs _];
    apply no_err_bind; [destruct (_ <? _)%N; exact I|intros _ _];
    apply no_err_bind; [destruct (g_gecko g); [apply gecko_blocks_no_err|exact I]|intros gk _];
    apply no_err_bind; [apply write_frames_no_err|intros fr _];
    apply no_err_bind; [destruct (g_meta g); [apply no_err_bind; [apply write_map_no_err|intros; exact I]|exact I]|intros; exact I]).
  exact Hn.
Qed.
Print Assumptions slp_write_err_only_version.
