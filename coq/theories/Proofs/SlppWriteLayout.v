(* The CONTENT of the .slpp archive entries: the hand model Model/Slpp.v [slpp_write] restated THROUGH the tables that
   tools/rust2coq.py regenerates from the text of src/io/peppi/ser.rs fn write (Gen/SlppWriteSrc.v): the first statement
   `slippi::assert_max_version(game.start.slippi.version)?`, and for every `tar_append(&mut tar, <content>, "<name>")?` the
   content expression in a normal form -- the JSON of a `peppi::Peppi { .. }` literal with the source of every field, the JSON
   of a value taken AS IS (game.metadata stays an Option), raw bytes `<record>.bytes.0`, the gecko buffer (prefix + bytes), and
   the frames.arrow buffer (ports, batch, schema, chunk, writer options, writer calls).  The names, guards and order of the
   entries are Gen/SlppEntries.v (front end (d)); the byte order of the gecko prefix is Gen/SlppHelpers.v (front end (n)).

   [slpp_write_tbl] is a writer driven by these tables only: it walks slpp_write_entries, decides by the guard whether the
   entry is written, looks the content up BY NAME in slpp_write_contents, evaluates the places of the content in the game
   (field by field, by Rust field name) and applies the encoder the shape of the content calls for.  The theorem is the full
   equality [slpp_write = slpp_write_tbl] (the Err of the version check and every outcome of the Arrow encoder included).

   If the source serialises another field (or a default instead of the game's value), swaps hash and quirks, takes the raw
   bytes of another record, builds the batch from another version / other ports, renames the schema field, makes it nullable,
   ignores or changes the compression option, or drops the version check, the regenerated table changes (or the translator
   fails) and the equality below no longer holds of the unchanged hand model.

   The second part ties the byte-level rendering [peppi_json] (used by the archive prediction of Model/Api.v) to the regenerated
   declaration of `struct Peppi` (keys in declaration order, `skip_serializing_if = "Option::is_none"`), `struct Version`
   (three numbers: an array) and `struct Quirks`. *)
From Coq Require Import List Arith NArith ZArith Lia Bool String.
From Coq.Strings Require Import Byte.
From Peppi Require Import Base.Bytes Base.Outcome Gen.Funs Gen.SlppEntries Gen.SlppHelpers Gen.SlppWriteSrc Model.Ubjson Model.Start
  Model.Json Model.Parse Model.Reader Model.Slpp Proofs.SlppProof Proofs.SlppHelpersLayout.
Import ListNotations.
Notation length := (@List.length _) (only parsing).
Local Open Scope string_scope.
Local Open Scope list_scope.

Transparent name_of kind_of.

Ltac ev_term x := let v := eval vm_compute in x in progress change x with v.

(* ---------------------------------------------------------------------------------------------------------
   (1) values reachable from `game` by field paths, by Rust field name *)
Inductive wval :=
| VStart (s : start_t)            (* game::Start *)
| VSlippi (v : version)           (* slippi::Slippi { version } *)
| VSlpVersion (v : version)       (* slippi::Version *)
| VPeppiVersion (v : version)     (* peppi::Version *)
| VBytesRec (b : list byte)       (* game::Bytes(pub Vec<u8>) *)
| VByteVec (b : list byte)        (* Vec<u8> *)
| VU32 (n : N)
| VHash (h : option (list byte))  (* Option<String> *)
| VQuirks (q : option bool)       (* Option<Quirks> *)
| VMeta (m : option utree)        (* Option<Map<String, Value>> *)
| VEnd (e : end_t)
| VGecko (k : gecko_t)
| VFrames (f : frames)
| VBad.

Definition field_of (v : wval) (f : string) : wval :=
  match v with
  | VStart s => if String.eqb f "bytes" then VBytesRec (st_bytes s)
                else if String.eqb f "slippi" then VSlippi (st_version s) else VBad
  | VSlippi v => if String.eqb f "version" then VSlpVersion v else VBad
  | VBytesRec b => if String.eqb f "0" then VByteVec b else VBad
  | VEnd e => if String.eqb f "bytes" then VBytesRec (en_bytes e) else VBad
  | VGecko k => if String.eqb f "actual_size" then VU32 (gk_actual k)
                else if String.eqb f "bytes" then VByteVec (gk_bytes k) else VBad
  | _ => VBad
  end.

(* the fields of game::immutable::Game; `end` and `gecko_codes` are Options and are reachable only through their `if let` *)
Definition game_field (g : sgame) (f : string) : wval :=
  let gm := sg_game g in
  if String.eqb f "start" then VStart (g_start gm)
  else if String.eqb f "frames" then VFrames (g_frames gm)
  else if String.eqb f "metadata" then VMeta (g_meta gm)
  else if String.eqb f "hash" then VHash (sg_hash g)
  else if String.eqb f "quirks" then VQuirks (g_quirk gm)
  else VBad.

Definition eval_place (g : sgame) (gv : wval) (p : wplace) : wval :=
  match p with
  | WpGame [] => VBad
  | WpGame (f :: path) => fold_left field_of path (game_field g f)
  | WpGuard path => fold_left field_of path gv
  | WpConst c => if String.eqb c "CURRENT_VERSION" then VPeppiVersion PEPPI_CURRENT_VERSION else VBad
  end.

(* the value bound by `if let Some(x) = &game.<guard>`; None: the block is not entered, the entry is not written *)
Definition guard_val (g : sgame) (gd : option string) : option wval :=
  match gd with
  | None => Some VBad
  | Some s => if String.eqb s "end" then option_map VEnd (g_end (sg_game g))
              else if String.eqb s "gecko_codes" then option_map VGecko (g_gecko (sg_game g))
              else None
  end.

Fixpoint lookup {A} (tbl : list (string * A)) (k : string) : option A :=
  match tbl with
  | [] => None
  | (n, a) :: r => if String.eqb n k then Some a else lookup r k
  end.

(* evaluate the table walk: field paths, lookups by name and comparisons of (closed) names; nothing of the model is unfolded *)
Ltac ev_tbl := cbv beta iota zeta delta [eval_place fold_left game_field field_of lookup option_map String.eqb Ascii.eqb Bool.eqb andb].

(* ---------------------------------------------------------------------------------------------------------
   (2) the compression handed to the Arrow writer.  ser::Opts { compression: Option<Compression> } is the model's
   [compression] (CNone = None); the caller passes Option<&Opts> *)
Definition cv (v : wcompv) : compression := match v with WvNone => CNone | WvLz4 => CLz4 | WvZstd => CZstd end.

Definition comp_tbl (o : option compression) : compression :=
  match slpp_arrow_compression with
  | WzOptsMapOr d f => match o with
                       | None => cv d
                       | Some c => if String.eqb f "compression" then c else CNone
                       end
  | WzConst v => cv v
  end.

(* what the hand model takes for the options: no options = no compression *)
Definition comp_of_opts (o : option compression) : compression := match o with None => CNone | Some c => c end.

Section Writer.
  Variable enc_peppi : version -> option (list byte) -> option bool -> list byte.
  Variable enc_meta : option utree -> list byte.
  Variable enc_start : start_t -> list byte.
  Variable enc_end : end_t -> list byte.
  Variable enc_frames : compression -> version -> list (N * bool) -> frames -> outcome (list byte).

  (* (3) the frames.arrow buffer: ONE schema field "frame", not nullable, of the batch's type; ONE chunk holding the batch;
     try_new, write(&chunk), finish -- that is the file the model's enc_frames stands for; the batch is
     <frames>.into_struct_array(<version>, &port_occupancy(<start>)) *)
  Definition arrow_tbl (o : option compression) (g : sgame) : outcome (list byte) :=
    let '(pfn, parg) := slpp_arrow_ports in
    let '(recv, meth, varg) := slpp_arrow_batch in
    match eval_place g VBad parg, eval_place g VBad recv, eval_place g VBad varg with
    | VStart s, VFrames fr, VSlpVersion v =>
        if String.eqb pfn "port_occupancy" && String.eqb meth "into_struct_array" then
          match slpp_arrow_schema, slpp_arrow_chunk, slpp_arrow_writer_calls with
          | [(n, AdtOfBatch, false)], [AaBatch], [AwWriteChunk; AwFinish] =>
              if String.eqb n "frame" then enc_frames (comp_tbl o) v (port_occupancy s) fr else Panic 0
          | _, _, _ => Panic 0
          end
        else Panic 0
    | _, _, _ => Panic 0
    end.

  (* (4) the content of one entry *)
  Definition content_tbl (o : option compression) (g : sgame) (gv : wval) (c : wcontent) : outcome (list byte) :=
    match c with
    | WcJsonStruct ty fields =>
        if String.eqb ty "Peppi" then
          match option_map (eval_place g gv) (lookup fields "version"),
                option_map (eval_place g gv) (lookup fields "slp_hash"),
                option_map (eval_place g gv) (lookup fields "quirks") with
          | Some (VPeppiVersion v), Some (VHash h), Some (VQuirks q) => Ok (enc_peppi v h q)
          | _, _, _ => Panic 0
          end
        else Panic 0
    | WcJson p =>
        match eval_place g gv p with
        | VMeta m => Ok (enc_meta m)
        | VStart s => Ok (enc_start s)
        | VEnd e => Ok (enc_end e)
        | _ => Panic 0
        end
    | WcRaw p => match eval_place g gv p with VByteVec b => Ok b | _ => Panic 0 end
    | WcPrefixedBytes a b =>
        match eval_place g gv a, eval_place g gv b with
        | VU32 n, VByteVec bs => Ok (enc_size slpp_gecko_write_little_endian n ++ bs)
        | _, _ => Panic 0
        end
    | WcArrowFile => arrow_tbl o g
    end.

  (* (5) the writer: the entries of Gen/SlppEntries.v in order, each with the content Gen/SlppWriteSrc.v lists under its name *)
  Fixpoint write_entries_tbl (o : option compression) (g : sgame) (es : list (string * option string)) : outcome (list entry) :=
    match es with
    | [] => Ok []
    | (n, gd) :: r =>
        match guard_val g gd with
        | None => write_entries_tbl o g r
        | Some gv =>
            match lookup slpp_write_contents n with
            | None => Panic 0
            | Some c => b <- content_tbl o g gv c ;; rest <- write_entries_tbl o g r ;; Ok ((sb n, b) :: rest)
            end
        end
    end.

  Definition slpp_write_tbl (o : option compression) (g : sgame) : outcome (list entry) :=
    let '(fn, p) := slpp_write_first in
    if String.eqb fn "assert_max_version" then
      match eval_place g VBad p with
      | VSlpVersion v => if negb (assert_max_version_ok v) then Err EInvalid else write_entries_tbl o g slpp_write_entries
      | _ => Panic 0
      end
    else Panic 0.

  Theorem slpp_write_from_source o g :
    slpp_write enc_peppi enc_meta enc_start enc_end enc_frames (comp_of_opts o) g = slpp_write_tbl o g.
  Proof.
    assert (Hc : comp_tbl o = comp_of_opts o) by (destruct o; reflexivity).
    assert (Ha : arrow_tbl o g =
                 enc_frames (comp_of_opts o) (st_version (g_start (sg_game g))) (port_occupancy (g_start (sg_game g)))
                            (g_frames (sg_game g))).
    { unfold arrow_tbl, slpp_arrow_ports, slpp_arrow_batch, slpp_arrow_schema, slpp_arrow_chunk, slpp_arrow_writer_calls.
      ev_tbl. rewrite Hc. reflexivity. }
    unfold slpp_write, slpp_write_tbl, slpp_write_first. ev_tbl.
    destruct (negb (assert_max_version_ok (st_version (g_start (sg_game g))))); [reflexivity|].
    cbv beta iota zeta delta [write_entries_tbl slpp_write_entries slpp_write_contents guard_val content_tbl
      eval_place fold_left game_field field_of lookup option_map String.eqb Ascii.eqb Bool.eqb andb].
    rewrite Ha.
    repeat match goal with
    | |- context [name_of ?k] => ev_term (name_of k)
    | |- context [sb ?s] => ev_term (sb s)
    end.
    change (enc_size slpp_gecko_write_little_endian) with le32.
    destruct (g_end (sg_game g)) as [e|]; destruct (g_gecko (sg_game g)) as [k|]; ev_tbl;
      destruct (enc_frames (comp_of_opts o) _ _ _); reflexivity.
  Qed.

  (* read off the table: the peppi entry is enc_peppi of (CURRENT_VERSION, the game's hash, the game's quirks), the metadata
     entry is enc_meta of the game's metadata option itself (None is encoded, not replaced) *)
  Corollary slpp_write_sources_from_source o g es : slpp_write_tbl o g = Ok es ->
    In (sb "peppi.json", enc_peppi PEPPI_CURRENT_VERSION (sg_hash g) (g_quirk (sg_game g))) es /\
    In (sb "metadata.json", enc_meta (g_meta (sg_game g))) es /\
    In (sb "start.json", enc_start (g_start (sg_game g))) es /\
    In (sb "start.raw", st_bytes (g_start (sg_game g))) es /\
    (forall e, g_end (sg_game g) = Some e -> In (sb "end.json", enc_end e) es /\ In (sb "end.raw", en_bytes e) es) /\
    exists fr, enc_frames (comp_tbl o) (st_version (g_start (sg_game g))) (port_occupancy (g_start (sg_game g)))
                          (g_frames (sg_game g)) = Ok fr /\ In (sb "frames.arrow", fr) es.
  Proof.
    rewrite <- slpp_write_from_source. unfold slpp_write. intro H.
    destruct (negb (assert_max_version_ok _)); [discriminate|].
    assert (Hc : comp_tbl o = comp_of_opts o) by (destruct o; reflexivity). rewrite Hc.
    destruct (enc_frames (comp_of_opts o) _ _ _) as [fr| | |]; cbn [bind] in H; try discriminate.
    apply ok_inj in H. subst es.
    repeat match goal with |- context [name_of ?k] => ev_term (name_of k) end.
    repeat match goal with |- context [sb ?s] => ev_term (sb s) end.
    cbn [app].
    split; [auto 8 using in_eq, in_cons|]. split; [auto 8 using in_eq, in_cons|].
    split; [auto 8 using in_eq, in_cons|]. split; [auto 8 using in_eq, in_cons|].
    split.
    - intros e' He. rewrite He. cbn [app]. split; auto 8 using in_eq, in_cons.
    - exists fr. split; [reflexivity|]. do 4 apply in_cons. apply in_or_app. right. apply in_or_app. right. left. reflexivity.
  Qed.
End Writer.

(* ---------------------------------------------------------------------------------------------------------
   (6) peppi.json byte for byte: `#[derive(Serialize)] struct Peppi` through its regenerated declaration *)
Definition member (key : string) (omit_none : bool) (val : option (list byte)) : option (list byte) :=
  match val with
  | Some t => Some (sb """" ++ sb key ++ sb """:" ++ t)
  | None => if omit_none then None else Some (sb """" ++ sb key ++ sb """:null")
  end.

Fixpoint join_members (ms : list (option (list byte))) (first : bool) : list byte :=
  match ms with
  | [] => []
  | None :: r => join_members r first
  | Some t :: r => (if first then [] else sb ",") ++ t ++ join_members r false
  end.

(* an object: the keys of the declaration IN ORDER, each under its JSON key, omitted when the attribute says so *)
Definition render_obj (decl : list (string * string * bool)) (value_of : string -> option (list byte)) : list byte :=
  sb "{" ++ join_members (map (fun d => member (fst (fst d)) (snd d) (value_of (snd (fst d)))) decl) true ++ sb "}".

Fixpoint join_commas (xs : list (list byte)) : list byte :=
  match xs with
  | [] => []
  | [x] => x
  | x :: r => x ++ sb "," ++ join_commas r
  end.

(* a tuple struct of several fields: an array *)
Definition version_text (v : version) : list byte :=
  sb "[" ++ join_commas (map show_N (firstn slpp_peppi_version_arity [v0 v; v1 v; v2 v])) ++ sb "]".

Definition quirks_text (q : bool) : list byte :=
  render_obj slpp_quirks_struct
             (fun f => if String.eqb f "double_game_end" then Some (sb (if q then "true" else "false")) else None).

Definition peppi_json_tbl (v : version) (hash : option (list byte)) (quirks : option bool) : list byte :=
  render_obj slpp_peppi_struct
             (fun f => if String.eqb f "version" then Some (version_text v)
                       else if String.eqb f "slp_hash" then option_map (fun h => sb """" ++ h ++ sb """") hash
                       else if String.eqb f "quirks" then option_map quirks_text quirks
                       else None).

Ltac norm_app := repeat (rewrite <- ?app_assoc; cbn [app]).

Theorem peppi_json_from_source v hash quirks : peppi_json v hash quirks = peppi_json_tbl v hash quirks.
Proof.
  unfold peppi_json, peppi_json_tbl, render_obj, slpp_peppi_struct, version_text, slpp_peppi_version_arity.
  cbn [map fst snd firstn join_commas].
  repeat match goal with |- context [String.eqb ?a ?b] => ev_term (String.eqb a b) end. cbv iota.
  destruct hash as [h|]; destruct quirks as [[|]|]; cbn [option_map member join_members];
    unfold quirks_text, render_obj, slpp_quirks_struct; cbn [map fst snd member join_members];
    repeat match goal with |- context [String.eqb ?a ?b] => ev_term (String.eqb a b) end; cbv iota;
    cbn [member join_members];
    repeat match goal with |- context [sb ?s] => ev_term (sb s) end;
    norm_app; reflexivity.
Qed.

(* the declarations, read off: three keys in this order, the two Options omitted when None; Game's Option fields *)
Theorem peppi_struct_from_source :
  map (fun d => (fst (fst d), snd d)) slpp_peppi_struct = [("version", false); ("slp_hash", true); ("quirks", true)] /\
  map (fun d => fst (fst d)) slpp_peppi_struct = map (fun d => snd (fst d)) slpp_peppi_struct /\
  map fst (filter snd slpp_game_fields) = ["end"; "metadata"; "gecko_codes"; "hash"; "quirks"] /\
  map fst (filter (fun x => negb (snd x)) slpp_game_fields) = ["start"; "frames"].
Proof. repeat split; vm_compute; reflexivity. Qed.

Print Assumptions slpp_write_from_source.
Print Assumptions slpp_write_sources_from_source.
Print Assumptions peppi_json_from_source.
Print Assumptions peppi_struct_from_source.
