(* C04: the shape of the columnar frame data.  The columns that the fold [frames_of] over a frame history builds
   are written down directly (no fold): one row per frame occurrence in file order; per character slot a Pre
   column, a Post column and a presence bitmap with exactly one entry per occurrence, the values of an occurrence
   sitting in its own row of its own slot; Start/End columns with one entry per occurrence; the flat item column
   with its offsets (row i's items are rows [off_i, off_{i+1}) of the flat column).  Together with [read_full]
   this describes the frames of the parsed game of every well-formed file. *)
From Coq Require Import List Arith NArith ZArith Lia Bool String ZifyBool ZifyN ZifyNat.
From Coq.Strings Require Import Byte.
From Peppi Require Import Base.Bytes Base.Outcome Base.Stream Layout.Syntax Gen.Funs Layout.Sem Layout.Rows Layout.RowsTheory
  Model.Ubjson Model.Start Model.Json Model.Parse Model.Reader Model.Writer Model.Recorder
  Proofs.Framing Proofs.FrameStep Proofs.StartFacts Proofs.TableFacts Proofs.UbjsonProof
  Proofs.Incremental Proofs.WriteProof Proofs.ReadProof.
Import ListNotations.
Notation length := (@List.length _) (only parsing).

(* ------------------------------------------------------------------------------------------------ *)
(* 1. the columns a frame history denotes, written directly                                           *)
(* ------------------------------------------------------------------------------------------------ *)
Definition is_some {A} (o : option A) : bool := match o with Some _ => true | None => false end.
Definition slot_at (k : nat) (f : aframe) : option (list byte * list byte) := nth k (af_slots f) None.

Definition col_pre (L : layout) (k : nat) (fs : list aframe) : list row :=
  map (fun f => match slot_at k f with Some (p, _) => p | None => repeat x00 (sz_pre L) end) fs.
Definition col_post (L : layout) (k : nat) (fs : list aframe) : list row :=
  map (fun f => match slot_at k f with Some (_, q) => q | None => repeat x00 (sz_post L) end) fs.
Definition col_valid (k : nat) (fs : list aframe) : list bool := map (fun f => is_some (slot_at k f)) fs.

(* item offsets: 0, then the running total of item counts *)
Fixpoint offsets_from (acc : nat) (fs : list aframe) : list Z :=
  match fs with
  | [] => []
  | f :: r => Z.of_nat (acc + length (af_items f)) :: offsets_from (acc + length (af_items f)) r
  end.

(* ------------------------------------------------------------------------------------------------ *)
(* 2. one step                                                                                        *)
(* ------------------------------------------------------------------------------------------------ *)
Lemma repeat_snoc {A} (x : A) n : repeat x (S n) = repeat x n ++ [x].
Proof. induction n as [|n IH]; [reflexivity|]. cbn [repeat app] in *. rewrite <- IH. reflexivity. Qed.

(* the presence bitmap, read through [valid_bits], grows by exactly one bit: no invariant on the slot needed *)
Lemma valid_bits_add L c o : valid_bits (sl_data (add_slot L c o)) = valid_bits (sl_data c) ++ [is_some o].
Proof.
  unfold valid_bits, add_slot. destruct o as [[p q]|]; cbn [sl_data c_valid c_pre data_push_null is_some].
  - destruct (c_valid (sl_data c)) as [b|]; cbn [option_map]; [reflexivity|].
    rewrite app_length. cbn [length]. rewrite Nat.add_1_r. apply repeat_snoc.
  - reflexivity.
Qed.

Lemma nth_error_map2 {A B C} (f : A -> B -> C) : forall l m k,
  nth_error (map2 f l m) k
  = match nth_error l k, nth_error m k with Some a, Some b => Some (f a b) | _, _ => None end.
Proof.
  induction l as [|a l IH]; intros m k.
  - cbn [map2]. destruct k; reflexivity.
  - destruct m as [|b m]; cbn [map2].
    + destruct k as [|k]; cbn [nth_error]; [reflexivity|]. destruct (nth_error l k); reflexivity.
    + destruct k as [|k]; cbn [nth_error]; [reflexivity|]. apply IH.
Qed.

Lemma slot_at_nth k f o : nth_error (af_slots f) k = Some o -> slot_at k f = o.
Proof. intro H. unfold slot_at. apply nth_error_nth. exact H. Qed.

(* ------------------------------------------------------------------------------------------------ *)
(* 3. the fold from an arbitrary starting point: columns of fr0 followed by the new columns           *)
(* ------------------------------------------------------------------------------------------------ *)
Section Fold.
Variables (v : version) (L : layout).

Definition chars_step (cs : list slot) (f : aframe) : list slot := map2 (add_slot L) cs (af_slots f).

Lemma fold_ids : forall fs fr0, f_ids (fold_left (add_frame v L) fs fr0) = f_ids fr0 ++ map af_id fs.
Proof.
  induction fs as [|f fs IH]; intro fr0; cbn [fold_left map]; [rewrite app_nil_r; reflexivity|].
  rewrite IH. cbn [add_frame f_ids]. rewrite <- app_assoc. reflexivity.
Qed.

Lemma fold_chars : forall fs fr0,
  f_chars (fold_left (add_frame v L) fs fr0) = fold_left chars_step fs (f_chars fr0).
Proof. induction fs as [|f fs IH]; intro fr0; cbn [fold_left]; [reflexivity|]. rewrite IH. reflexivity. Qed.

Lemma fold_start : forall fs fr0,
  f_start (fold_left (add_frame v L) fs fr0) = option_map (fun rows => rows ++ map af_start fs) (f_start fr0).
Proof.
  induction fs as [|f fs IH]; intro fr0; cbn [fold_left map].
  - destruct (f_start fr0) as [rows|]; cbn [option_map]; [rewrite app_nil_r|]; reflexivity.
  - rewrite IH. cbn [add_frame f_start]. destruct (f_start fr0) as [rows|]; cbn [option_map]; [|reflexivity].
    rewrite <- app_assoc. reflexivity.
Qed.

Lemma fold_end : forall fs fr0,
  f_end (fold_left (add_frame v L) fs fr0) = option_map (fun rows => rows ++ map af_end fs) (f_end fr0).
Proof.
  induction fs as [|f fs IH]; intro fr0; cbn [fold_left map].
  - destruct (f_end fr0) as [rows|]; cbn [option_map]; [rewrite app_nil_r|]; reflexivity.
  - rewrite IH. cbn [add_frame f_end]. destruct (f_end fr0) as [rows|]; cbn [option_map]; [|reflexivity].
    rewrite <- app_assoc. reflexivity.
Qed.

Lemma fold_item : forall fs fr0,
  f_item (fold_left (add_frame v L) fs fr0)
  = option_map (fun items => items ++ List.concat (map af_items fs)) (f_item fr0).
Proof.
  induction fs as [|f fs IH]; intro fr0; cbn [fold_left map List.concat].
  - destruct (f_item fr0) as [items|]; cbn [option_map]; [rewrite app_nil_r|]; reflexivity.
  - rewrite IH. cbn [add_frame f_item]. destruct (f_item fr0) as [items|]; cbn [option_map]; [|reflexivity].
    rewrite <- app_assoc. reflexivity.
Qed.

Lemma fold_item_off_some : forall fs fr0 offs items,
  f_item_off fr0 = Some offs -> f_item fr0 = Some items ->
  f_item_off (fold_left (add_frame v L) fs fr0) = Some (offs ++ offsets_from (length items) fs).
Proof.
  induction fs as [|f fs IH]; intros fr0 offs items Ho Hi; cbn [fold_left offsets_from].
  - rewrite app_nil_r. exact Ho.
  - rewrite (IH (add_frame v L fr0 f) (offs ++ [Z.of_nat (length items + length (af_items f))]) (items ++ af_items f)).
    + rewrite app_length, <- app_assoc. reflexivity.
    + cbn [add_frame f_item_off]. rewrite Ho, Hi. reflexivity.
    + cbn [add_frame f_item]. rewrite Hi. reflexivity.
Qed.

Lemma fold_item_off_none : forall fs fr0,
  f_item_off fr0 = None -> f_item_off (fold_left (add_frame v L) fs fr0) = None.
Proof.
  induction fs as [|f fs IH]; intros fr0 Ho; cbn [fold_left]; [exact Ho|].
  apply IH. cbn [add_frame f_item_off]. rewrite Ho. reflexivity.
Qed.

(* every slot of the result is a slot of the start with the history's columns appended *)
Lemma fold_chars_cols : forall fs cs k c,
  nth_error (fold_left chars_step fs cs) k = Some c ->
  exists c0, nth_error cs k = Some c0 /\
    sl_port c = sl_port c0 /\ sl_fol c = sl_fol c0 /\
    c_pre (sl_data c) = c_pre (sl_data c0) ++ col_pre L k fs /\
    c_post (sl_data c) = c_post (sl_data c0) ++ col_post L k fs /\
    valid_bits (sl_data c) = valid_bits (sl_data c0) ++ col_valid k fs.
Proof.
  induction fs as [|f fs IH]; intros cs k c Hk; cbn [fold_left] in Hk.
  - exists c. unfold col_pre, col_post, col_valid. cbn [map]. rewrite !app_nil_r. repeat split. exact Hk.
  - destruct (IH _ _ _ Hk) as (c1 & Hk1 & Hp1 & Hf1 & Hpre & Hpost & Hval).
    unfold chars_step in Hk1. rewrite nth_error_map2 in Hk1.
    destruct (nth_error cs k) as [c0|] eqn:Ec0; [|discriminate Hk1].
    destruct (nth_error (af_slots f) k) as [o|] eqn:Eo; [|discriminate Hk1].
    injection Hk1 as Hc1. subst c1. exists c0. split; [reflexivity|].
    pose proof (slot_at_nth k f o Eo) as Hs.
    rewrite pre_add in Hpre. rewrite post_add in Hpost. rewrite valid_bits_add in Hval.
    unfold col_pre, col_post, col_valid. cbn [map]. rewrite Hs.
    rewrite <- app_assoc in Hpre, Hpost, Hval. cbn [app] in Hpre, Hpost, Hval.
    repeat split; assumption.
Qed.

(* no slot is lost or added when every frame lists exactly the slots *)
Lemma fold_chars_tags (slots : list (N * bool)) : forall fs cs,
  Forall (fun f => length (af_slots f) = length slots) fs -> tags cs = slots ->
  tags (fold_left chars_step fs cs) = slots.
Proof.
  induction fs as [|f fs IH]; intros cs Hfs Ht; cbn [fold_left]; [exact Ht|].
  pose proof (Forall_inv Hfs) as Hf. pose proof (Forall_inv_tail Hfs) as Hfs'. cbv beta in Hf.
  apply IH; [exact Hfs'|].
  unfold chars_step. rewrite tags_add; [exact Ht|].
  rewrite Hf, <- Ht. unfold tags. rewrite map_length. reflexivity.
Qed.

End Fold.

(* ------------------------------------------------------------------------------------------------ *)
(* 4. item offsets and the rows they delimit                                                          *)
(* ------------------------------------------------------------------------------------------------ *)
Lemma firstn_len_app {A} (x y : list A) : firstn (length x) (x ++ y) = x.
Proof. rewrite firstn_app, Nat.sub_diag, firstn_all. cbn [firstn]. apply app_nil_r. Qed.

Lemma skipn_len_app {A} (x y : list A) n : skipn (length x + n) (x ++ y) = skipn n y.
Proof. induction x as [|a x IH]; [reflexivity|]. cbn [length app Nat.add skipn]. exact IH. Qed.

Lemma offsets_from_length : forall fs acc, length (offsets_from acc fs) = length fs.
Proof. induction fs as [|f fs IH]; intro acc; cbn [offsets_from length]; [reflexivity|]. f_equal. apply IH. Qed.

Lemma offsets_rows : forall fs i f acc, nth_error fs i = Some f ->
  exists a,
    nth_error (Z.of_nat acc :: offsets_from acc fs) i = Some (Z.of_nat (acc + a)) /\
    nth_error (Z.of_nat acc :: offsets_from acc fs) (S i) = Some (Z.of_nat (acc + a + length (af_items f))) /\
    firstn (length (af_items f)) (skipn a (List.concat (map af_items fs))) = af_items f.
Proof.
  induction fs as [|f0 fs IH]; intros i f acc Hi; [destruct i; discriminate Hi|].
  destruct i as [|i]; cbn [nth_error] in Hi.
  - injection Hi as ->. exists O. cbn [nth_error offsets_from map List.concat skipn].
    rewrite Nat.add_0_r. repeat split. apply firstn_len_app.
  - destruct (IH i f (acc + length (af_items f0))%nat Hi) as (a & H1 & H2 & H3).
    exists (length (af_items f0) + a)%nat. cbn [offsets_from map List.concat].
    rewrite skipn_len_app. rewrite !Nat.add_assoc.
    split; [exact H1|]. split; [exact H2|exact H3].
Qed.

(* ------------------------------------------------------------------------------------------------ *)
(* 5. C04 for [frames_of]                                                                             *)
(* ------------------------------------------------------------------------------------------------ *)
Lemma chars_new_empty v ports k c : nth_error (f_chars (frames_new v ports)) k = Some c -> sl_data c = empty_cdata.
Proof.
  intro Hk. apply nth_error_In in Hk. unfold frames_new in Hk. cbn [f_chars] in Hk.
  apply in_flat_map in Hk as (p & _ & Hc).
  destruct Hc as [<-|Hc]; [reflexivity|]. destruct (snd p); [|destruct Hc]. destruct Hc as [<-|[]]. reflexivity.
Qed.

Section C04.
Variables (v : version) (ports : list (N * bool)) (fs : list aframe).
Let L := layout_of v.
Hypothesis Hwf : Forall (fun f => wf_frame v L (slots_of ports) f = true) fs.
Let fr := frames_of v ports fs.

(* one row per occurrence, in file order *)
Theorem c04_ids : f_ids fr = map af_id fs.
Proof. unfold fr, frames_of. rewrite fold_ids. reflexivity. Qed.

(* the slots are the occupied characters, in port order *)
Theorem c04_slots : tags (f_chars fr) = slots_of ports.
Proof.
  unfold fr, frames_of. rewrite fold_chars. apply fold_chars_tags.
  - eapply Forall_impl; [|exact Hwf]. intros f Hf. cbv beta in Hf.
    apply wf_frame_inv in Hf as (_ & _ & _ & _ & Hl & _). exact Hl.
  - apply ReadProof.tags_new.
Qed.

Theorem c04_slot_count : length (f_chars fr) = length (slots_of ports).
Proof. rewrite <- c04_slots. unfold tags. rewrite map_length. reflexivity. Qed.

(* slot k's columns are exactly the history's column k *)
Theorem c04_slot_columns : forall k c, nth_error (f_chars fr) k = Some c ->
  c_pre (sl_data c) = col_pre L k fs /\ c_post (sl_data c) = col_post L k fs /\
  valid_bits (sl_data c) = col_valid k fs.
Proof.
  intros k c Hk. unfold fr, frames_of in Hk. rewrite fold_chars in Hk.
  apply fold_chars_cols in Hk as (c0 & Hk0 & _ & _ & Hpre & Hpost & Hval).
  apply chars_new_empty in Hk0. rewrite Hk0 in Hpre, Hpost, Hval.
  unfold valid_bits in Hval at 2. cbn [empty_cdata c_pre c_post c_valid length repeat app] in Hpre, Hpost, Hval.
  repeat split; assumption.
Qed.

Theorem c04_start : f_start fr = if vgte v 2 2 then Some (map af_start fs) else None.
Proof.
  unfold fr, frames_of. rewrite fold_start. unfold frames_new. cbn [f_start].
  destruct (vgte v 2 2); reflexivity.
Qed.

Theorem c04_end : f_end fr = if vgte v 3 0 then Some (map af_end fs) else None.
Proof.
  unfold fr, frames_of. rewrite fold_end. unfold frames_new. cbn [f_end].
  destruct (vgte v 3 0); reflexivity.
Qed.

Theorem c04_items : f_item fr = if vgte v 3 0 then Some (List.concat (map af_items fs)) else None.
Proof.
  unfold fr, frames_of. rewrite fold_item. unfold frames_new. cbn [f_item].
  destruct (vgte v 3 0); reflexivity.
Qed.

Theorem c04_item_offsets : f_item_off fr = if vgte v 3 0 then Some (0%Z :: offsets_from 0 fs) else None.
Proof.
  unfold fr, frames_of. destruct (vgte v 3 0) eqn:E.
  - rewrite (fold_item_off_some v (layout_of v) fs (frames_new v ports) [0%Z] []).
    + reflexivity.
    + unfold frames_new. cbn [f_item_off]. rewrite E. reflexivity.
    + unfold frames_new. cbn [f_item]. rewrite E. reflexivity.
  - apply fold_item_off_none. unfold frames_new. cbn [f_item_off]. rewrite E. reflexivity.
Qed.

(* ---- consequences, stated explicitly ---- *)
(* every column of every slot has exactly one entry per frame row *)
Theorem c04_lengths : forall k c, nth_error (f_chars fr) k = Some c ->
  length (c_pre (sl_data c)) = length fs /\ length (c_post (sl_data c)) = length fs /\
  length (valid_bits (sl_data c)) = length fs.
Proof.
  intros k c Hk. destruct (c04_slot_columns k c Hk) as (H1 & H2 & H3). rewrite H1, H2, H3.
  unfold col_pre, col_post, col_valid. rewrite !map_length. repeat split.
Qed.

(* ... and so have the ids and the start/end columns *)
Theorem c04_row_counts :
  length (f_ids fr) = length fs /\
  (forall rows, f_start fr = Some rows -> length rows = length fs) /\
  (forall rows, f_end fr = Some rows -> length rows = length fs) /\
  (forall offs, f_item_off fr = Some offs -> length offs = S (length fs)).
Proof.
  split; [rewrite c04_ids; apply map_length|]. split; [|split].
  - intros rows H. rewrite c04_start in H. destruct (vgte v 2 2); [|discriminate H]. injection H as <-. apply map_length.
  - intros rows H. rewrite c04_end in H. destruct (vgte v 3 0); [|discriminate H]. injection H as <-. apply map_length.
  - intros offs H. rewrite c04_item_offsets in H. destruct (vgte v 3 0); [|discriminate H]. injection H as <-.
    cbn [length]. rewrite offsets_from_length. reflexivity.
Qed.

(* a slot is marked present in row i exactly when the character had events in occurrence i, and then its values
   sit in row i of that slot *)
Theorem c04_presence : forall k c i f, nth_error (f_chars fr) k = Some c -> nth_error fs i = Some f ->
  nth_error (valid_bits (sl_data c)) i = Some (is_some (slot_at k f)) /\
  (forall p q, slot_at k f = Some (p, q) ->
     nth_error (c_pre (sl_data c)) i = Some p /\ nth_error (c_post (sl_data c)) i = Some q).
Proof.
  intros k c i f Hk Hi. destruct (c04_slot_columns k c Hk) as (H1 & H2 & H3). rewrite H1, H2, H3.
  unfold col_pre, col_post, col_valid. split.
  - apply map_nth_error with (f := fun f => is_some (slot_at k f)). exact Hi.
  - intros p q Hs. split.
    + rewrite (map_nth_error _ i fs Hi). rewrite Hs. reflexivity.
    + rewrite (map_nth_error _ i fs Hi). rewrite Hs. reflexivity.
Qed.

(* an absent character's row is the null row (zero-filled, masked out by the bitmap) *)
Theorem c04_absence : forall k c i f, nth_error (f_chars fr) k = Some c -> nth_error fs i = Some f ->
  slot_at k f = None ->
  nth_error (valid_bits (sl_data c)) i = Some false /\
  nth_error (c_pre (sl_data c)) i = Some (repeat x00 (sz_pre L)) /\
  nth_error (c_post (sl_data c)) i = Some (repeat x00 (sz_post L)).
Proof.
  intros k c i f Hk Hi Hs. destruct (c04_slot_columns k c Hk) as (H1 & H2 & H3). rewrite H1, H2, H3.
  unfold col_pre, col_post, col_valid. rewrite !(map_nth_error _ i fs Hi). rewrite Hs. repeat split.
Qed.

(* the items of row i are exactly the items of occurrence i: rows [off_i, off_{i+1}) of the flat item column *)
Theorem c04_row_items : vgte v 3 0 = true -> forall i f, nth_error fs i = Some f ->
  exists a b items,
    f_item_off fr = Some (0%Z :: offsets_from 0 fs) /\
    nth_error (0%Z :: offsets_from 0 fs) i = Some (Z.of_nat a) /\
    nth_error (0%Z :: offsets_from 0 fs) (S i) = Some (Z.of_nat b) /\
    f_item fr = Some items /\
    firstn (b - a) (skipn a items) = af_items f.
Proof.
  intros Hv i f Hi. destruct (offsets_rows fs i f O Hi) as (a & H1 & H2 & H3).
  exists a, (a + length (af_items f))%nat, (List.concat (map af_items fs)).
  rewrite c04_item_offsets, c04_items, Hv. change (Z.of_nat 0) with 0%Z in H1, H2.
  cbn [Nat.add] in H1, H2. repeat split; try assumption.
  replace (a + length (af_items f) - a)%nat with (length (af_items f)) by lia. exact H3.
Qed.

End C04.

(* ------------------------------------------------------------------------------------------------ *)
(* 6. for a whole file: the parsed frames are these columns                                           *)
(* ------------------------------------------------------------------------------------------------ *)
Theorem c04_parsed r st h : wf_replay r = true -> game_start (r_start r) = ROk st ->
  exists g, slp_read {| o_skip := false; o_hash := h |} (emit r) = Ok (g, []) /\
            g_frames g = frames_of (r_ver r) (port_occupancy st) (r_frames r).
Proof.
  intros Hwf Hst. exists (game_of {| o_skip := false; o_hash := h |} r st (end_of r)). split.
  - apply read_full; assumption.
  - reflexivity.
Qed.

(* the hypotheses of section C04 hold for the frame history of a well-formed replay *)
Theorem c04_parsed_wf r st : wf_replay r = true -> game_start (r_start r) = ROk st ->
  Forall (fun f => wf_frame (r_ver r) (layout_of (r_ver r)) (slots_of (port_occupancy st)) f = true) (r_frames r).
Proof. intros Hwf Hst. destruct (wf_replay_inv r st Hwf Hst) as (_ & _ & H & _). exact H. Qed.

Print Assumptions c04_ids.
Print Assumptions c04_slots.
Print Assumptions c04_slot_count.
Print Assumptions c04_slot_columns.
Print Assumptions c04_start.
Print Assumptions c04_end.
Print Assumptions c04_items.
Print Assumptions c04_item_offsets.
Print Assumptions c04_lengths.
Print Assumptions c04_row_counts.
Print Assumptions c04_presence.
Print Assumptions c04_absence.
Print Assumptions c04_row_items.
Print Assumptions c04_parsed.
Print Assumptions c04_parsed_wf.
