(* The Arrow glue of the frame columns: the hand model Model/View.v [arrow_frame] / [arrow_data] (Frame / PortData / Data
   ::into_struct_array with the names given by ::data_type) is the interpretation of the tables that tools/rust2coq.py
   regenerates from the text of the hand-written head of src/frame/immutable/peppi.rs (Gen/ArrowFrame.v): the top-level
   children id, ports, start, end, item in push order with the `if version.gte(M, m)` gates around each push, for
   data_type and for into_struct_array separately, and the field-name assertions / positional indices of
   from_struct_array.

   If the source reorders two children, changes a gate, a name, the record a child is built from, or a positional index of
   the reader, the regenerated tables change and these theorems no longer hold of the unchanged hand model. *)
From Coq Require Import List Arith NArith ZArith Lia Bool String.
From Coq.Strings Require Import Byte.
From Peppi Require Import Base.Bytes Base.Outcome Layout.Syntax Gen.Funs Gen.Tables Gen.ArrowFrame Layout.Sem Layout.Rows
  Layout.Shapes Model.Start Model.Parse Model.View Proofs.C14Proof.
Import ListNotations.
Notation length := (@List.length _) (only parsing).
Local Open Scope string_scope.
Local Open Scope list_scope.

Ltac ev_term x := let v := eval vm_compute in x in progress change x with v.

Definition gates_hold (v : version) (gs : list (N * N)) : bool := forallb (fun g => vgte v (fst g) (snd g)) gs.

(* the fields of the Rust structs and their counterparts in the model's records *)
Inductive dfield := DPre | DPost.
Definition dfield_of (s : string) : option dfield :=
  if String.eqb s "pre" then Some DPre else if String.eqb s "post" then Some DPost else None.
Definition data_rows (d : cdata) (f : dfield) : list row := match f with DPre => c_pre d | DPost => c_post d end.

Inductive ffield := FStart | FEnd | FItem.
Definition ffield_of (s : string) : option ffield :=
  if String.eqb s "start" then Some FStart else if String.eqb s "end" then Some FEnd
  else if String.eqb s "item" then Some FItem else None.
Definition frame_rows (fr : frames) (f : ffield) : option (list row) :=
  match f with FStart => f_start fr | FEnd => f_end fr | FItem => f_item fr end.
(* the unwrap() panic sites of the model *)
Definition frame_site (f : ffield) : N := match f with FStart => 706%N | FEnd => 707%N | FItem => 707%N end.

(* ------------------------------------------------------------------------------------------------------------------ *)
(* 1. impl Data                                                                                                        *)
(* ------------------------------------------------------------------------------------------------------------------ *)
(* the children: the k-th Field of data_type names the k-th value of into_struct_array; every value is
   self.<field>.into_struct_array(version) of the record type of that field *)
Fixpoint ad_go (v : version) (d : cdata) (dt : list (string * akind)) (into : list (string * string))
  : outcome (list (atree * nat)) :=
  match dt, into with
  | [], [] => Ok []
  | (nm, AkStruct rec) :: dr, (f, rec') :: ir =>
      match dfield_of f with
      | Some df =>
          if String.eqb rec rec' then
            x <- arrow_struct v rec nm (data_rows d df) (c_valid d) ;;
            xs <- ad_go v d dr ir ;;
            Ok ((x, length (data_rows d df)) :: xs)
          else Panic 0
      | None => Panic 0
      end
  | _, _ => Panic 0
  end.

(* StructArray::new(Self::data_type(version), values, self.validity): all children must have the same length (704) *)
Definition arrow_data_tbl (dt : list (string * akind)) (into : list (string * string)) (with_validity : bool)
           (v : version) (name : string) (d : cdata) : outcome atree :=
  kids <- ad_go v d dt into ;;
  match kids with
  | [] => Panic 0
  | (x, n) :: r =>
      if forallb (fun y => Nat.eqb n (snd y)) r
      then Ok (AStruct name n (if with_validity then c_valid d else None) (map fst kids))
      else Panic 704
  end.

Theorem arrow_data_from_source v name d :
  arrow_data v name d = arrow_data_tbl arrow_data_data_type arrow_data_into arrow_data_into_validity v name d.
Proof.
  unfold arrow_data, arrow_data_tbl, arrow_data_data_type, arrow_data_into, arrow_data_into_validity.
  cbn [ad_go].
  repeat match goal with
  | |- context [dfield_of ?s] => ev_term (dfield_of s)
  | |- context [String.eqb ?a ?b] => ev_term (String.eqb a b)
  end; cbv beta iota. cbn [data_rows].
  destruct (arrow_struct_ungated v "Pre" "pre" (c_pre d) (c_valid d)) as (sv1 & ch1 & H1); [cbn [In]; intuition|].
  destruct (arrow_struct_ungated v "Post" "post" (c_post d) (c_valid d)) as (sv2 & ch2 & H2); [cbn [In]; intuition|].
  rewrite H1, H2. cbn [bind forallb snd fst map andb].
  destruct (Nat.eqb (length (c_pre d)) (length (c_post d))); cbn [negb andb]; reflexivity.
Qed.

(* the reader takes the children back from the positions the writer put them at, under the same names *)
Theorem arrow_data_tables_agree :
  map fst arrow_data_data_type = map fst arrow_data_into /\
  map (fun x => (fst (fst x), snd x)) arrow_data_from = arrow_data_into /\
  map (fun x => snd (fst x)) arrow_data_from = seq 0 (length arrow_data_into) /\
  arrow_data_into_validity = arrow_data_from_validity.
Proof. repeat split; vm_compute; reflexivity. Qed.

(* ------------------------------------------------------------------------------------------------------------------ *)
(* 2. impl PortData                                                                                                    *)
(* ------------------------------------------------------------------------------------------------------------------ *)
(* a port of the model: its leader and, for Ice Climbers, its follower *)
Definition port_field (g : N * cdata * option cdata) (f : string) : option (option cdata) :=
  if String.eqb f "leader" then Some (Some (snd (fst g)))
  else if String.eqb f "follower" then Some (snd g) else None.

Fixpoint ap_go (v : version) (g : N * cdata * option cdata) (dt : list (string * akind * bool)) (into : list (string * bool))
  : outcome (list atree) :=
  match dt, into with
  | [], [] => Ok []
  | (nm, AkData, _) :: dr, (f, cond) :: ir =>
      match port_field g f with
      | Some (Some d) => x <- arrow_data v nm d ;; xs <- ap_go v g dr ir ;; Ok (x :: xs)
      | Some None => if cond then ap_go v g dr ir else Panic 0     (* `if let Some(x) = self.<field>`: nothing pushed *)
      | None => Panic 0
      end
  | _, _ => Panic 0
  end.

Definition arrow_port_tbl (dt : list (string * akind * bool)) (into : list (string * bool)) (v : version)
           (g : N * cdata * option cdata) : outcome atree :=
  kids <- ap_go v g dt into ;;
  Ok (AStruct (port_name (fst (fst g))) (length (c_pre (snd (fst g)))) None kids).

(* the model's per-port step of [arrow_frame] *)
Definition arrow_port (v : version) (g : N * cdata * option cdata) : outcome atree :=
  l <- arrow_data v "leader" (snd (fst g)) ;;
  f <- (match snd g with
        | Some d => x <- arrow_data v "follower" d ;; Ok [x]
        | None => Ok []
        end) ;;
  Ok (AStruct (port_name (fst (fst g))) (length (c_pre (snd (fst g)))) None (l :: f)).

Theorem arrow_port_from_source v g : arrow_port v g = arrow_port_tbl arrow_port_data_type arrow_port_into v g.
Proof.
  unfold arrow_port, arrow_port_tbl, arrow_port_data_type, arrow_port_into. cbn [ap_go]. unfold port_field.
  repeat match goal with |- context [String.eqb ?a ?b] => ev_term (String.eqb a b) end; cbv beta iota.
  destruct (arrow_data v "leader" (snd (fst g))) as [l| | |]; cbn [bind]; try reflexivity.
  destruct (snd g) as [d|]; cbn [bind]; [|reflexivity].
  destruct (arrow_data v "follower" d) as [x| | |]; cbn [bind]; reflexivity.
Qed.

(* data_type pushes "follower" iff the occupancy says so, into_struct_array iff the column set is there; the reader
   asserts and takes both by position *)
Theorem arrow_port_tables_agree :
  map (fun x => (fst (fst x), snd x)) arrow_port_data_type = arrow_port_into /\
  arrow_port_from_asserts = arrow_port_from /\
  map (fun x => (fst (fst x), snd x)) arrow_port_from = arrow_port_into /\
  map (fun x => snd (fst x)) arrow_port_from = seq 0 (length arrow_port_into).
Proof. repeat split; vm_compute; reflexivity. Qed.

(* the name of a port's child: format!("{}", p.port), i.e. `impl Display for Port`; Port::parse is its inverse *)
Fixpoint display_of (tbl : list (N * string)) (p : N) : option string :=
  match tbl with
  | [] => None
  | (c, s) :: r => if N.eqb c p then Some s else display_of r p
  end.
Fixpoint parse_of (tbl : list (string * N)) (s : string) : option N :=
  match tbl with
  | [] => None
  | (t, c) :: r => if String.eqb t s then Some c else parse_of r s
  end.

Theorem port_names_from_source :
  forall p, In p Port_codes -> display_of port_display p = Some (port_name p) /\ parse_of port_parse (port_name p) = Some p.
Proof.
  intros p Hp. unfold Port_codes in Hp. cbn [In] in Hp.
  repeat (destruct Hp as [<-|Hp]; [split; vm_compute; reflexivity|]). destruct Hp.
Qed.

(* ------------------------------------------------------------------------------------------------------------------ *)
(* 3. impl Frame: data_type / into_struct_array                                                                        *)
(* ------------------------------------------------------------------------------------------------------------------ *)
(* one child: the k-th Field of data_type (name, type) with the k-th pushed array of into_struct_array *)
Definition child (v : version) (fr : frames) (ports : list atree) (name : string) (k : akind) (s : asrc) : outcome atree :=
  let n := length (f_ids fr) in
  match s, k with
  | AsPrimBoxed f p, AkPrim p' =>
      if String.eqb f "id" && prim_eqb p p' && prim_eqb p I32
      then Ok (APrim name p (map (fun z => Z.to_N (z mod 4294967296)%Z) (f_ids fr))) else Panic 0
  | AsPorts, AkPorts =>
      match ports with [] => Panic 705 | _ => Ok (AStruct name n None ports) end     (* a struct with no fields *)
  | AsStructUnwrap f rec, AkStruct rec' =>
      match ffield_of f with
      | Some ff =>
          if String.eqb rec rec' then
            match frame_rows fr ff with
            | Some rows => arrow_struct v rec name rows None
            | None => Panic (frame_site ff)
            end
          else Panic 0
      | None => Panic 0
      end
  | AsListUnwrap off f rec, AkList inner rec' =>
      match ffield_of f with
      | Some ff =>
          if String.eqb off "item_offset" && String.eqb rec rec' then
            match frame_rows fr ff with
            | Some items =>
                it <- arrow_struct v rec inner items None ;;
                match f_item_off fr with
                | Some offs => Ok (AList name n inner offs it)
                | None => Panic 707
                end
            | None => Panic (frame_site ff)
            end
          else Panic 0
      | None => Panic 0
      end
  | _, _ => Panic 0
  end.

(* the pushes in source order; a push happens iff all the gates around it hold *)
Fixpoint af_go (v : version) (fr : frames) (ports : list atree) (dt : list (string * list (N * N) * akind))
         (into : list (asrc * list (N * N))) : outcome (list atree) :=
  match dt, into with
  | [], [] => Ok []
  | (name, _, k) :: dr, (s, gs) :: ir =>
      if gates_hold v gs then x <- child v fr ports name k s ;; xs <- af_go v fr ports dr ir ;; Ok (x :: xs)
      else af_go v fr ports dr ir
  | _, _ => Panic 0
  end.

Definition arrow_frame_tbl (dt : list (string * list (N * N) * akind)) (into : list (asrc * list (N * N)))
           (v : version) (fr : frames) : outcome atree :=
  ports <- all_ok (map (arrow_port v) (group_ports (length (f_chars fr)) (f_chars fr))) ;;
  kids <- af_go v fr ports dt into ;;
  Ok (AStruct "frame" (length (f_ids fr)) None kids).

(* data_type and into_struct_array push under the same gates, position by position (otherwise StructArray::new panics) *)
Theorem arrow_frame_gates_agree :
  map (fun x => snd (fst x)) arrow_frame_data_type = map snd arrow_frame_into.
Proof. vm_compute. reflexivity. Qed.

Lemma vgte_37_30 v : vgte v 3 7 = true -> vgte v 3 0 = true.
Proof. destruct v as [[x y] z]. unfold vgte, slippi_Version_gte, v0, v1. cbn [fst snd]. lia. Qed.

(* THE theorem: full equality, panics included, for EVERY frame set -- also the ones no constructor of the crate produces
   (from 3.0 to before 3.7 neither the source nor the hand model touches self.end, so a missing End goes unnoticed on both
   sides).  The unwrap sites are reached in the same order on both sides: start, end (>= 3.7), item, item_offset *)
Theorem arrow_frame_from_source v fr :
  arrow_frame v fr = arrow_frame_tbl arrow_frame_data_type arrow_frame_into v fr.
Proof.
  unfold arrow_frame, arrow_frame_tbl, arrow_frame_data_type, arrow_frame_into.
  change (fun g : N * cdata * option cdata =>
            l <- arrow_data v "leader" (snd (fst g)) ;;
            f <- match snd g with
                 | Some d => x <- arrow_data v "follower" d ;; Ok [x]
                 | None => Ok []
                 end ;; Ok (AStruct (port_name (fst (fst g))) (length (c_pre (snd (fst g)))) None (l :: f)))
    with (arrow_port v).
  destruct (all_ok (map (arrow_port v) (group_ports (length (f_chars fr)) (f_chars fr)))) as [ports| | |];
    cbn [bind]; try reflexivity.
  cbn [af_go child gates_hold forallb fst snd].
  repeat match goal with
  | |- context [ffield_of ?s] => ev_term (ffield_of s)
  | |- context [String.eqb ?a ?b] => ev_term (String.eqb a b)
  | |- context [prim_eqb ?a ?b] => ev_term (prim_eqb a b)
  end; cbv beta iota. cbn [andb frame_rows frame_site bind].
  destruct ports as [|p0 ps]; cbn [bind]; [reflexivity|].
  destruct (vgte v 2 2) eqn:E22; cbn [andb].
  - destruct (f_start fr) as [srows|]; cbn [bind]; [|reflexivity].
    destruct (arrow_struct v "Start" "start" srows None) as [st| | |]; cbn [bind]; try reflexivity.
    destruct (vgte v 3 0) eqn:E30; cbn [andb].
    + destruct (vgte v 3 7) eqn:E37; cbn [andb bind].
      * destruct (f_end fr) as [erows|]; cbn [bind]; [|reflexivity].
        destruct (arrow_struct v "End" "end" erows None) as [en| | |]; cbn [bind]; try reflexivity.
        destruct (f_item fr) as [items|]; cbn [bind]; [|reflexivity].
        destruct (arrow_struct v "Item" "item" items None) as [it| | |]; cbn [bind]; try reflexivity.
        destruct (f_item_off fr) as [offs|]; cbn [bind app]; reflexivity.
      * destruct (f_item fr) as [items|]; cbn [bind]; [|reflexivity].
        destruct (arrow_struct v "Item" "item" items None) as [it| | |]; cbn [bind]; try reflexivity.
        destruct (f_item_off fr) as [offs|]; cbn [bind app]; reflexivity.
    + cbn [app]. reflexivity.
  - assert (E30 : vgte v 3 0 = false).
    { destruct (vgte v 3 0) eqn:E; [|reflexivity]. apply vgte_30_22 in E. congruence. }
    reflexivity.
Qed.

(* the corner on which an earlier, stricter hand model differed from the source, made concrete: a 3.0 frame set without an
   End is exported all the same, by both sides, to the same tree (children id, ports, start, item); from 3.7 on both sides
   panic at the unwrap of self.end *)
Example arrow_frame_end_none :
  let fr := {| f_ids := []; f_chars := [{| sl_port := 0%N; sl_fol := false; sl_data := empty_cdata |}];
               f_start := Some []; f_end := None; f_item_off := Some [0%Z]; f_item := Some [] |} in
  (exists n kids, arrow_frame (3, 0, 0)%N fr = Ok (AStruct "frame" n None kids) /\
                  arrow_frame_tbl arrow_frame_data_type arrow_frame_into (3, 0, 0)%N fr = Ok (AStruct "frame" n None kids) /\
                  map child_name kids = ["id"; "ports"; "start"; "item"]) /\
  arrow_frame (3, 7, 0)%N fr = Panic 707 /\
  arrow_frame_tbl arrow_frame_data_type arrow_frame_into (3, 7, 0)%N fr = Panic 707.
Proof.
  split; [eexists; eexists; split; [vm_compute; reflexivity|split; vm_compute; reflexivity]|].
  split; vm_compute; reflexivity.
Qed.

(* the children of the export, from the data_type table alone: the names whose gates hold, in order *)
Definition active_names (v : version) : list string :=
  map (fun x => fst (fst x)) (filter (fun x => gates_hold v (snd (fst x))) arrow_frame_data_type).

Theorem arrow_frame_children_from_source v fr n kids :
  arrow_frame v fr = Ok (AStruct "frame" n None kids) -> map child_name kids = active_names v.
Proof.
  unfold active_names, arrow_frame_data_type. cbn [filter gates_hold forallb fst snd].
  unfold arrow_frame.
  destruct (all_ok _) as [ports| | |]; cbn [bind]; try discriminate.
  destruct ports as [|p0 ps]; cbn [bind]; [discriminate|].
  destruct (vgte v 2 2) eqn:E22; cbn [andb].
  - destruct (f_start fr) as [srows|]; [|discriminate].
    destruct (arrow_struct v "Start" "start" srows None) as [st| | |] eqn:Es; cbn [bind]; try discriminate.
    assert (Hst : child_name st = "start").
    { unfold arrow_struct in Es. destruct (assoc "Start" tbl_data_type); [|discriminate].
      destruct (arrow_fields _ _ _ _ _ _) as [[ch ?]|]; [|discriminate]. destruct ch; [discriminate|].
      inversion Es. reflexivity. }
    destruct (vgte v 3 0) eqn:E30; cbn [andb].
    + destruct (vgte v 3 7) eqn:E37; cbn [bind andb].
      * destruct (f_end fr) as [erows|]; [|discriminate].
        destruct (arrow_struct v "End" "end" erows None) as [en| | |] eqn:Ee; cbn [bind]; try discriminate.
        assert (Hen : child_name en = "end").
        { unfold arrow_struct in Ee. destruct (assoc "End" tbl_data_type); [|discriminate].
          destruct (arrow_fields _ _ _ _ _ _) as [[ch ?]|]; [|discriminate]. destruct ch; [discriminate|].
          inversion Ee. reflexivity. }
        destruct (f_item fr) as [items|]; [|discriminate].
        destruct (arrow_struct v "Item" "item" items None); cbn [bind]; try discriminate.
        destruct (f_item_off fr) as [offs|]; [|discriminate].
        intro H. inversion H. cbn [map app child_name]. rewrite Hst, Hen. reflexivity.
      * destruct (f_item fr) as [items|]; [|discriminate].
        destruct (arrow_struct v "Item" "item" items None); cbn [bind]; try discriminate.
        destruct (f_item_off fr) as [offs|]; [|discriminate].
        intro H. inversion H. cbn [map app child_name]. rewrite Hst. reflexivity.
    + intro H. inversion H. cbn [map app child_name]. rewrite Hst. reflexivity.
  - intro H. inversion H. reflexivity.
Qed.

(* ------------------------------------------------------------------------------------------------------------------ *)
(* 4. impl Frame: from_struct_array against data_type                                                                  *)
(* ------------------------------------------------------------------------------------------------------------------ *)
Definition cond_holds (v : version) (c : bool * N * N) : bool := Bool.eqb (vgte v (snd (fst c)) (snd c)) (fst (fst c)).
Definition conds_hold (v : version) (cs : list (bool * N * N)) : bool := forallb (cond_holds v) cs.

(* what the writer lays out at version v: (name, position) of the data_type children whose gates hold *)
Definition positions {A} (l : list A) : list (A * nat) := combine l (seq 0 (length l)).
Definition written_fields (v : version) : list (string * nat) := positions (active_names v).
(* what the reader asserts at version v *)
Definition asserted_fields (v : version) : list (string * nat) :=
  map fst (filter (fun x => conds_hold v (snd x)) arrow_frame_from_asserts).

Fixpoint position_of (l : list (string * nat)) (name : string) : option nat :=
  match l with
  | [] => None
  | (n, k) :: r => if String.eqb n name then Some k else position_of r name
  end.

(* the reader's positional indices *)
Definition end_idx (v : version) : option nat :=
  let '(g, (a, _), _) := arrow_frame_from_idx in if vgte v (fst g) (snd g) then Some a else None.
Definition item_idx (v : version) : nat :=
  let '(g, (_, b), c) := arrow_frame_from_idx in if vgte v (fst g) (snd g) then b else c.

Fixpoint from_lookup (tbl : list (string * fsrc)) (name : string) : option fsrc :=
  match tbl with
  | [] => None
  | (n, s) :: r => if String.eqb n name then Some s else from_lookup r name
  end.

(* For every version: the reader asserts exactly the names the writer's data_type lists, at the positions they have
   there; and each field of the result is taken from the position of the child of the same name whenever that child
   exists -- `start` from the fixed index, `end` through end_idx, `item` / `item_offset` through item_idx; a child that is
   not written lies beyond the end of `values` (values.get(..) = None), except that `end` from 3.0 to before 3.7 is
   the empty End record (FfStructAtEndIdx's else-gate (3, 0) is the data_type gate of the item list, i.e. the version
   from which the model has an End). *)
Theorem arrow_frame_from_agrees_with_data_type v :
  asserted_fields v = written_fields v /\
  from_lookup arrow_frame_from "id" = Some (FfPrimAt 0 I32) /\ position_of (written_fields v) "id" = Some 0%nat /\
  from_lookup arrow_frame_from "ports" = Some (FfPortsAt 1) /\ position_of (written_fields v) "ports" = Some 1%nat /\
  (exists k, from_lookup arrow_frame_from "start" = Some (FfStructGet k "Start") /\
             match position_of (written_fields v) "start" with
             | Some p => p = k
             | None => (length (written_fields v) <= k)%nat
             end) /\
  (exists g, from_lookup arrow_frame_from "end" = Some (FfStructAtEndIdx "End" g) /\
             match position_of (written_fields v) "end" with
             | Some p => end_idx v = Some p
             | None => end_idx v = None /\ vgte v (fst g) (snd g) = gates_hold v [(2, 2); (3, 0)]%N
             end) /\
  from_lookup arrow_frame_from "item_offset" = Some FfListOffsetsAtItemIdx /\
  from_lookup arrow_frame_from "item" = Some (FfListValuesAtItemIdx "Item") /\
  match position_of (written_fields v) "item" with
  | Some p => item_idx v = p
  | None => (length (written_fields v) <= item_idx v)%nat
  end.
Proof.
  unfold asserted_fields, written_fields, active_names, end_idx, item_idx,
    arrow_frame_from_asserts, arrow_frame_data_type, arrow_frame_from_idx, arrow_frame_from.
  unfold conds_hold, cond_holds. cbn [filter map fst snd forallb gates_hold from_lookup].
  repeat match goal with |- context [String.eqb ?a ?b] => ev_term (String.eqb a b) end; cbv beta iota.
  assert (H3730 := vgte_37_30 v). assert (H3022 := vgte_30_22 v).
  destruct (vgte v 3 7) eqn:E37; [rewrite (H3730 eq_refl), (H3022 (H3730 eq_refl))|];
    [|destruct (vgte v 3 0) eqn:E30; [rewrite (H3022 eq_refl)|destruct (vgte v 2 2) eqn:E22]];
    clear H3730 H3022; cbn;
    repeat split; try reflexivity; try lia;
    eexists; (split; [reflexivity|]); cbn;
    repeat match goal with H : vgte v _ _ = _ |- context [vgte v _ _] => rewrite H end;
    try split; try reflexivity; try lia.
Qed.

Print Assumptions arrow_data_from_source.
Print Assumptions arrow_data_tables_agree.
Print Assumptions arrow_port_from_source.
Print Assumptions arrow_port_tables_agree.
Print Assumptions port_names_from_source.
Print Assumptions arrow_frame_gates_agree.
Print Assumptions arrow_frame_from_source.
Print Assumptions arrow_frame_end_none.
Print Assumptions arrow_frame_children_from_source.
Print Assumptions arrow_frame_from_agrees_with_data_type.
