(* C13 -- The per-frame row view equals the columnar data at the same index.
   The generated per-struct transpose_one / From<mutable> code is regenerated into tables on every run. *)
From Coq Require Import List NArith Bool String.
From Peppi Require Import Layout.Syntax Gen.Funs Gen.Tables Layout.Sem Layout.Spec Layout.Shapes Layout.Rows Layout.Transpose.
Import ListNotations.

(* closed obligations on the current source: both generated transpose_one families are the identity leaf map over
   the reader's leaves, Option exactly on version-gated leaves; From<mutable> moves every column to the column of the
   same name; the three struct families declare the same fields *)
Lemma C13_tables_identity :
  forallb (tr_is_identity tbl_mut_transpose tbl_mut_decl) events = true /\
  forallb (tr_is_identity tbl_imm_transpose tbl_imm_decl) events = true /\
  forallb from_mutable_identity all_structs = true /\
  forallb decls_agree all_structs = true.
Proof. vm_compute. repeat split; reflexivity. Qed.

(* hence, for every column state and index: the row view is the tuple of the columns at that index, in field order,
   a version-absent (None) column giving an absent field -- for the in-progress and the finished representation *)
Theorem C13_row_view_mutable : forall E col i, In E events ->
  exists m, tr_flat tbl_mut_transpose tbl_mut_decl 8 E "" "" false = Some m /\ view_by m col i = view_direct E col i.
Proof.
  intros E col i HE. apply transpose_identity.
  destruct C13_tables_identity as [H _]. rewrite forallb_forall in H. apply H. exact HE.
Qed.

Theorem C13_row_view_immutable : forall E col i, In E events ->
  exists m, tr_flat tbl_imm_transpose tbl_imm_decl 8 E "" "" false = Some m /\ view_by m col i = view_direct E col i.
Proof.
  intros E col i HE. apply transpose_identity.
  destruct C13_tables_identity as [_ [H _]]. rewrite forallb_forall in H. apply H. exact HE.
Qed.

Print Assumptions C13_tables_identity.
Print Assumptions C13_row_view_mutable.
Print Assumptions C13_row_view_immutable.
