(* C13 -- The per-frame row view equals the columnar data at the same index.
   The generated per-struct transpose_one / From<mutable> code is regenerated into tables on every run. *)
From Coq Require Import List NArith Bool String.
From Coq.Strings Require Import Byte.
From Peppi Require Import Base.Bytes Base.Outcome Layout.Syntax Gen.Funs Gen.Tables Layout.Sem Layout.Spec Layout.Shapes Layout.Rows Layout.Transpose
  Model.Start Model.Parse Model.Reader Model.Writer Model.Recorder Model.View Proofs.C04Proof Proofs.C13Proof.
Import ListNotations.

(* closed obligations on the current source: both generated transpose_one families are the identity leaf map over
   the reader's leaves, Option exactly on version-gated leaves; From<mutable> moves every column to the column of the
   same name; the three struct families declare the same fields *)
Lemma C13_tables_identity :
  forallb (tr_is_identity tbl_mut_transpose tbl_mut_decl) events = true /\
  forallb (tr_is_identity tbl_imm_transpose tbl_imm_decl) events = true /\
  forallb from_mutable_identity all_structs = true /\
  forallb decls_agree all_structs = true.
Proof. vm_compute. repeat split; reflexivity. Qed.

(* hence, for every column state and index: the row view is the tuple of the columns at that index, in field order,
   a version-absent (None) column giving an absent field -- for the in-progress and the finished representation *)
Theorem C13_row_view_mutable : forall E col i, In E events ->
  exists m, tr_flat tbl_mut_transpose tbl_mut_decl 8 E "" "" false = Some m /\ view_by m col i = view_direct E col i.
Proof.
  intros E col i HE. apply transpose_identity.
  destruct C13_tables_identity as [H _]. rewrite forallb_forall in H. apply H. exact HE.
Qed.

Theorem C13_row_view_immutable : forall E col i, In E events ->
  exists m, tr_flat tbl_imm_transpose tbl_imm_decl 8 E "" "" false = Some m /\ view_by m col i = view_direct E col i.
Proof.
  intros E col i HE. apply transpose_identity.
  destruct C13_tables_identity as [_ [H _]]. rewrite forallb_forall in H. apply H. exact HE.
Qed.

(* end to end, on the hand model of Frame::transpose_one (Model/View.v): for EVERY well-formed replay and EVERY frame
   index i in range, the record view of row i of the parsed game is the i-th frame OCCURRENCE of the file: its id, every
   occupied character's pre and post values (the null row for a character without events), its start / end values
   where the version has them, and exactly its items in order; and an index out of range is an index error *)
Theorem C13_parsed_view_is_occurrence : forall r st h i f,
  wf_replay r = true -> game_start (r_start r) = ROk st -> nth_error (r_frames r) i = Some f ->
  exists g, slp_read {| o_skip := false; o_hash := h |} (emit r) = Ok (g, []) /\
            frame_view (r_ver r) (g_frames g) i = Ok (view_of (r_ver r) (port_occupancy st) f).
Proof. exact c13_parsed_view. Qed.
Theorem C13_view_in_range_iff : forall v ports fs,
  Forall (fun f => wf_frame v (layout_of v) (slots_of ports) f = true) fs ->
  forall i, (exists w, frame_view v (frames_of v ports fs) i = Ok w) <-> (i < List.length fs)%nat.
Proof. exact c13_view_ok_iff. Qed.

From Peppi Require Import Gen.FrameTranspose Proofs.FrameTransposeLayout.
(* ---- the hand-written frame-level transpose_one of Frame / PortData / Data (src/frame/immutable/mod.rs and
   src/frame/mutable.rs), regenerated (Gen/FrameTranspose.v): the hand model [frame_view] IS the interpretation of the regenerated
   tables (which column each field of the row view is taken from, the version gate of start / end / items, leader / follower),
   index errors and panics included; the mutable (in-progress) and immutable (finished) representations have the same tables.
   Unconditional: for EVERY version, frame set and index, also the frame sets no constructor produces (item offsets without item
   columns: self.item is unwrapped only inside the loop over the frame's items, in the source and in the hand model alike) *)
Theorem C13_frame_view_from_source : forall v fr i,
  frame_view v fr i = frame_view_tbl imm_frame_transpose imm_portdata_transpose imm_data_transpose v fr i.
Proof. exact frame_view_from_source. Qed.
Theorem C13_frame_view_mutable_from_source : forall v fr i,
  frame_view v fr i = frame_view_tbl mut_frame_transpose mut_portdata_transpose mut_data_transpose v fr i.
Proof. exact frame_view_mutable_from_source. Qed.
Theorem C13_transpose_tables_agree :
  mut_data_transpose = imm_data_transpose /\ mut_portdata_transpose = imm_portdata_transpose /\
  mut_frame_transpose = imm_frame_transpose.
Proof. exact transpose_tables_agree. Qed.

From Peppi Require Proofs.ReaderTies.
(* the reader model these theorems speak about is the one regenerated from the source on this run: one-shot read, every incremental
   entry point, the event dispatch with the splitter, the Game Start wiring, the metadata reader (Proofs/ReaderTies.v reader_tied) *)
Theorem C13_reader_is_the_source : ReaderTies.reader_tied.
Proof. exact ReaderTies.reader_tied_holds. Qed.

Print Assumptions C13_tables_identity.
Print Assumptions C13_parsed_view_is_occurrence.
Print Assumptions C13_view_in_range_iff.
Print Assumptions C13_row_view_mutable.
Print Assumptions C13_row_view_immutable.
Print Assumptions C13_frame_view_from_source.
Print Assumptions C13_frame_view_mutable_from_source.
Print Assumptions C13_transpose_tables_agree.
Print Assumptions C13_reader_is_the_source.
