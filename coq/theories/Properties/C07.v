(* C07 -- A replay file cut short at any byte never yields a partial game, panic or hang (.slp part).
   Reader model Model/Reader.v; replay model Model/Recorder.v.  The .slpp part is decided by the archive model
   (C02/C18) and exhaustive prefix runs on the real library. *)
From Coq Require Import List Arith NArith ZArith Bool String.
From Coq.Strings Require Import Byte.
From Peppi Require Import Base.Bytes Base.Outcome Gen.Funs Model.Ubjson Model.Start Model.Parse Model.Reader Model.Writer Model.Recorder
  Model.Slpp Proofs.Totality Proofs.ReadProof Proofs.Truncation Proofs.SlppCut Proofs.Examples.
Import ListNotations.

(* a successful read is unchanged by appending bytes, except that the appended bytes stay unread: the result never
   depends on bytes beyond what was consumed (all parsers read exact lengths) *)
Theorem C07_read_extends : forall o p g rest suf,
  slp_read o p = Ok (g, rest) -> slp_read o (p ++ suf) = Ok (g, rest ++ suf).
Proof. exact slp_read_extends. Qed.

(* EVERY proper prefix (every byte offset) of EVERY well-formed replay is rejected with an error value: not a game
   built from partial data, not a panic, not a hang -- full read ... *)
Theorem C07_truncated_full : forall r st h p suf,
  wf_replay r = true -> game_start (r_start r) = ROk st -> emit r = p ++ suf -> suf <> [] ->
  exists e, slp_read {| o_skip := false; o_hash := h |} p = Err e.
Proof. exact truncated_full. Qed.

(* ... and skip-frames read of a finished replay (the seek may go past the end of a truncated file) *)
Theorem C07_truncated_skip : forall r st h p suf,
  wf_replay r = true -> game_start (r_start r) = ROk st -> finished r = true -> emit r = p ++ suf -> suf <> [] ->
  exists e, slp_read {| o_skip := true; o_hash := h |} p = Err e.
Proof. exact truncated_skip. Qed.

(* .slpp, at the granularity of archive entries (Model/Slpp.v; no hypothesis on the codecs is needed): the writer emits
   frames.arrow last, so an archive cut at ANY entry boundary lacks it and is rejected, with and without skip_frames
   -- never read as a game with empty frames.  (Cuts inside an entry and tar/Arrow framing are library behaviour:
   exhaustive prefix runs on the real reader.) *)
Theorem C07_slpp_cut_rejected :
  forall enc_peppi dec_peppi enc_meta dec_meta enc_start enc_end enc_frames dec_frames skip c g es pre suf,
  slpp_write enc_peppi enc_meta enc_start enc_end enc_frames c g = Ok es -> es = (pre ++ suf)%list -> suf <> [] ->
  exists e, slpp_read dec_peppi dec_meta dec_frames skip pre = Err e.
Proof. exact slpp_cut_rejected. Qed.

Theorem C07_nonvacuous :
  (wf_replay ex_r37 = true /\ res_is_ok (game_start (r_start ex_r37)) = true /\ finished ex_r37 = true) /\
  (wf_replay ex_r10 = true /\ res_is_ok (game_start (r_start ex_r10)) = true /\ finished ex_r10 = true).
Proof. exact (conj ex_r37_wf ex_r10_wf). Qed.

From Peppi Require Import Model.Json Model.Slpp Gen.SlppEntries Proofs.SlppLayout.
(* ---- the .slpp half through the regenerated entry tables: the writer's entries in order, the reader's arms, and that the arm which
   stops the reader is the LAST entry the writer emits (so that no cut before the end of the archive can leave a complete-looking
   prefix containing it) ---- *)
Theorem C07_written_entries_from_source : forall enc_peppi enc_meta enc_start enc_end enc_frames c g es,
  slpp_write enc_peppi enc_meta enc_start enc_end enc_frames c g = Ok es ->
  map fst es = written_names (is_some (g_end (sg_game g))) (is_some (g_gecko (sg_game g))) /\
  map (fun x => sb (fst x)) (filter snd slpp_read_names) = [last (map fst es) []].
Proof. exact (fun ep em es_ ee ef c g es H => conj (slpp_write_entries_from_source ep em es_ ee ef c g es H) (slpp_last_entry_from_source ep em es_ ee ef c g es H)). Qed.
Theorem C07_read_names_from_source : forall p, kind_of p = kind_of_tbl slpp_read_targets p.
Proof. exact slpp_read_names_from_source. Qed.

From Peppi Require Import Gen.SlppReadSrc Proofs.SlppReadLayout.
(* ---- the frames.arrow arm and the assembly after the loop, regenerated (Gen/SlppReadSrc.v): a frames entry shorter than its
   declared size is an error before any decoding; peppi.json, start.raw and frames.arrow are required; exactly one record batch ---- *)
Theorem C07_frames_arm_from_source : forall dec_peppi dec_meta dec_frames o skip p c r a,
  kind_of p = KFrames -> skip = skip_of_opts o ->
  kind_of (sb slpp_frames_entry) = KFrames /\
  read_entries dec_peppi dec_meta dec_frames skip ((p, c) :: r) a = frames_arm_tbl dec_frames o (List.length c) c a.
Proof. exact frames_arm_from_source. Qed.
Theorem C07_short_frames_entry_is_error : forall dec_frames o declared c a s,
  ra_start a = Some s -> skip_tbl o = false -> (List.length c < declared)%nat ->
  frames_arm_tbl dec_frames o declared c a = Err EInvalid.
Proof. exact frames_arm_short_from_source. Qed.
Theorem C07_slpp_reader_assembly_from_source : forall dec_peppi dec_meta dec_frames skip es,
  slpp_read dec_peppi dec_meta dec_frames skip es =
  (a <- read_entries dec_peppi dec_meta dec_frames skip es racc0 ;; assemble_tbl a).
Proof. exact slpp_read_from_source. Qed.
Theorem C07_required_entries_from_source :
  (forall n, In n slpp_read_required <-> n = "peppi"%string \/ n = "start"%string \/ n = "frames"%string) /\
  map (fun x : string * asm_src => fst x)
      (filter (fun x : string * asm_src => match snd x with AsOptional _ => true | _ => false end) slpp_read_assembly)
  = ["metadata"; "end"; "gecko_codes"]%string.
Proof. exact slpp_read_required_from_source. Qed.

From Peppi Require Proofs.ReaderTies.
(* the reader model these theorems speak about is the one regenerated from the source on this run: one-shot read, every incremental
   entry point, the event dispatch with the splitter, the Game Start wiring, the metadata reader (Proofs/ReaderTies.v reader_tied) *)
Theorem C07_reader_is_the_source : ReaderTies.reader_tied.
Proof. exact ReaderTies.reader_tied_holds. Qed.

Print Assumptions C07_read_extends.
Print Assumptions C07_truncated_full.
Print Assumptions C07_truncated_skip.
Print Assumptions C07_slpp_cut_rejected.
Print Assumptions C07_nonvacuous.
Print Assumptions C07_written_entries_from_source.
Print Assumptions C07_read_names_from_source.
Print Assumptions C07_frames_arm_from_source.
Print Assumptions C07_short_frames_entry_is_error.
Print Assumptions C07_slpp_reader_assembly_from_source.
Print Assumptions C07_required_entries_from_source.
Print Assumptions C07_reader_is_the_source.
