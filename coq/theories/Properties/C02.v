(* C02 -- .slp -> .slpp -> .slp is lossless under every compression option.
   Entry-level model Model/Slpp.v. serde_json (peppi.json, metadata.json) and the Arrow IPC writer/reader under
   each compression are the parameters enc_*/dec_* with the inverse-pair hypotheses stated in the theorems
   (they are premises, not axioms: Print Assumptions is closed). *)
From Coq Require Import List NArith Bool.
From Coq.Strings Require Import Byte.
From Peppi Require Import Base.Bytes Base.Outcome Gen.Funs Model.Ubjson Model.Start Model.Parse Model.Reader Model.Writer Model.Recorder Model.Slpp
  Proofs.SlppProof Proofs.TableFacts Proofs.Corollaries.
Import ListNotations.

(* Every game the .slp reader can produce ("coherent": its start/end records are the parse of their retained raw
   blocks), with or without frames, metadata, end, gecko codes: what the .slpp writer emits under compression c is
   read back as the same game, with the same stored hash and quirks -- for every c. *)
Theorem C02_roundtrip :
  forall enc_peppi dec_peppi enc_meta dec_meta enc_start enc_end enc_frames dec_frames,
  (forall v h q, dec_peppi (enc_peppi v h q) = Some (v, h, q)) ->
  (forall m, dec_meta (enc_meta m) = Some m) ->
  (forall c v ports fr b, enc_frames c v ports fr = Ok b -> dec_frames v b = Ok fr) ->
  forall c g es,
    coherent (sg_game g) ->
    slpp_write enc_peppi enc_meta enc_start enc_end enc_frames c g = Ok es ->
    slpp_read dec_peppi dec_meta dec_frames false es = Ok {| sg_game := strip_hash (sg_game g); sg_hash := sg_hash g |}.
Proof. exact slpp_roundtrip. Qed.

(* the .slpp writer refuses on version grounds only (C09), so it accepts every game of a supported version whose
   frames the Arrow export accepts *)
Theorem C02_write_refuses_only_new_versions :
  forall enc_peppi enc_meta enc_start enc_end enc_frames c g,
    assert_max_version_ok (st_version (g_start (sg_game g))) = false ->
    slpp_write enc_peppi enc_meta enc_start enc_end enc_frames c g = Err EInvalid.
Proof. exact slpp_write_refuses. Qed.

(* the whole chain on EVERY well-formed replay: read the .slp, write the game as .slpp (any compression), read it back,
   write it as .slp: the output is the input file, byte for byte (library codecs as above) *)
Theorem C02_full_chain :
  forall enc_peppi dec_peppi enc_meta dec_meta enc_start enc_end enc_frames dec_frames,
  (forall v h q, dec_peppi (enc_peppi v h q) = Some (v, h, q)) ->
  (forall m, dec_meta (enc_meta m) = Some m) ->
  (forall c v ports fr b, enc_frames c v ports fr = Ok b -> dec_frames v b = Ok fr) ->
  forall r st h c hash es,
    wf_replay r = true -> game_start (r_start r) = ROk st ->
    let g := game_of {| o_skip := false; o_hash := h |} r st (end_of r) in
    slpp_write enc_peppi enc_meta enc_start enc_end enc_frames c {| sg_game := g; sg_hash := hash |} = Ok es ->
    slp_read {| o_skip := false; o_hash := h |} (emit r) = Ok (g, []) /\
    exists g2, slpp_read dec_peppi dec_meta dec_frames false es = Ok {| sg_game := g2; sg_hash := hash |} /\
               slp_write g2 = Ok (emit r).
Proof. exact c02_full_chain. Qed.

Print Assumptions C02_roundtrip.
Print Assumptions C02_full_chain.
Print Assumptions C02_write_refuses_only_new_versions.
