(* C02 -- .slp -> .slpp -> .slp is lossless under every compression option.
   Entry-level model Model/Slpp.v. serde_json (peppi.json, metadata.json) and the Arrow IPC writer/reader under
   each compression are the parameters enc_*/dec_* with the inverse-pair hypotheses stated in the theorems
   (they are premises, not axioms: Print Assumptions is closed). *)
From Coq Require Import List NArith Bool.
From Coq.Strings Require Import Byte.
From Peppi Require Import Base.Bytes Base.Outcome Gen.Funs Model.Ubjson Model.Start Model.Parse Model.Reader Model.Writer Model.Recorder Model.Slpp
  Proofs.SlppProof Proofs.TableFacts Proofs.Corollaries.
Import ListNotations.

(* Every game the .slp reader can produce ("coherent": its start/end records are the parse of their retained raw
   blocks), with or without frames, metadata, end, gecko codes: what the .slpp writer emits under compression c is
   read back as the same game, with the same stored hash and quirks -- for every c. *)
Theorem C02_roundtrip :
  forall enc_peppi dec_peppi enc_meta dec_meta enc_start enc_end enc_frames dec_frames,
  (forall v h q, dec_peppi (enc_peppi v h q) = Some (v, h, q)) ->
  (forall m, dec_meta (enc_meta m) = Some m) ->
  (forall c v ports fr b, enc_frames c v ports fr = Ok b -> dec_frames v b = Ok fr) ->
  forall c g es,
    coherent (sg_game g) ->
    slpp_write enc_peppi enc_meta enc_start enc_end enc_frames c g = Ok es ->
    slpp_read dec_peppi dec_meta dec_frames false es = Ok {| sg_game := strip_hash (sg_game g); sg_hash := sg_hash g |}.
Proof. exact slpp_roundtrip. Qed.

(* the .slpp writer refuses on version grounds only (C09), so it accepts every game of a supported version whose
   frames the Arrow export accepts *)
Theorem C02_write_refuses_only_new_versions :
  forall enc_peppi enc_meta enc_start enc_end enc_frames c g,
    assert_max_version_ok (st_version (g_start (sg_game g))) = false ->
    slpp_write enc_peppi enc_meta enc_start enc_end enc_frames c g = Err EInvalid.
Proof. exact slpp_write_refuses. Qed.

(* the whole chain on EVERY well-formed replay: read the .slp, write the game as .slpp (any compression), read it back,
   write it as .slp: the output is the input file, byte for byte (library codecs as above) *)
Theorem C02_full_chain :
  forall enc_peppi dec_peppi enc_meta dec_meta enc_start enc_end enc_frames dec_frames,
  (forall v h q, dec_peppi (enc_peppi v h q) = Some (v, h, q)) ->
  (forall m, dec_meta (enc_meta m) = Some m) ->
  (forall c v ports fr b, enc_frames c v ports fr = Ok b -> dec_frames v b = Ok fr) ->
  forall r st h c hash es,
    wf_replay r = true -> game_start (r_start r) = ROk st ->
    let g := game_of {| o_skip := false; o_hash := h |} r st (end_of r) in
    slpp_write enc_peppi enc_meta enc_start enc_end enc_frames c {| sg_game := g; sg_hash := hash |} = Ok es ->
    slp_read {| o_skip := false; o_hash := h |} (emit r) = Ok (g, []) /\
    exists g2, slpp_read dec_peppi dec_meta dec_frames false es = Ok {| sg_game := g2; sg_hash := hash |} /\
               slp_write g2 = Ok (emit r).
Proof. exact c02_full_chain. Qed.

From Coq Require Import String.
From Peppi Require Import Model.Json Gen.SlppEntries Proofs.SlppLayout Gen.SlppHelpers Proofs.SlppHelpersLayout Layout.Rows Model.View Gen.ArrowFrame Proofs.ArrowFrameLayout.
(* ---- the .slpp side of the trip THROUGH THE TABLES REGENERATED FROM THE SOURCE on this run: the entries the writer appends (order,
   guards) and the arms of the reader with the one that stops the loop (Gen/SlppEntries.v); the gecko blob prefix on both sides and the
   metadata arms (Gen/SlppHelpers.v); the children of the Arrow frame struct as exported and the positions they are imported from, for
   every version (Gen/ArrowFrame.v) ---- *)
Theorem C02_written_entries_from_source : forall enc_peppi enc_meta enc_start enc_end enc_frames c g es,
  slpp_write enc_peppi enc_meta enc_start enc_end enc_frames c g = Ok es ->
  map fst es = written_names (is_some (g_end (sg_game g))) (is_some (g_gecko (sg_game g))) /\
  map (fun x => sb (fst x)) (filter snd slpp_read_names) = [last (map fst es) []].
Proof. exact (fun ep em es_ ee ef c g es H => conj (slpp_write_entries_from_source ep em es_ ee ef c g es H) (slpp_last_entry_from_source ep em es_ ee ef c g es H)). Qed.
Theorem C02_read_names_from_source : forall p, kind_of p = kind_of_tbl slpp_read_targets p.
Proof. exact slpp_read_names_from_source. Qed.
Theorem C02_gecko_prefix_from_source : forall n,
  List.length (enc_size slpp_gecko_write_little_endian n) = slpp_gecko_size_len /\
  dec_size slpp_gecko_read_little_endian (enc_size slpp_gecko_write_little_endian n) = (n mod 4294967296)%N.
Proof. exact gecko_size_agrees. Qed.
Theorem C02_metadata_arms_from_source :
  meta_of_shape slpp_meta_arms MsNull = Some None /\
  (forall m, meta_of_shape slpp_meta_arms (MsObject m) = Some (Some m)) /\
  (forall v, v <> "Null"%string -> v <> "Object"%string -> meta_of_shape slpp_meta_arms (MsOther v) = None).
Proof. exact meta_arms_from_source. Qed.
Theorem C02_frame_export_from_source : forall v fr,
  arrow_frame v fr = arrow_frame_tbl arrow_frame_data_type arrow_frame_into v fr.
Proof. exact arrow_frame_from_source. Qed.
Theorem C02_frame_import_positions_from_source : forall v, asserted_fields v = written_fields v.
Proof. exact (fun v => proj1 (arrow_frame_from_agrees_with_data_type v)). Qed.

From Peppi Require Import Gen.SlppWriteSrc Gen.SlppReadSrc Gen.SlppOptsSrc Proofs.SlppWriteLayout Proofs.SlppReadLayout Proofs.SlppOptsLayout.
(* ---- the CONTENT of every archive entry and the assembly of the game after the reader's loop, regenerated (Gen/SlppWriteSrc.v,
   Gen/SlppReadSrc.v, Gen/SlppOptsSrc.v): peppi.json from (CURRENT_VERSION, the game's hash, the game's quirks), metadata.json from the
   metadata option AS IS, start/end JSON and raw blocks from the records, the frames from into_struct_array under the caller's
   compression (none when no options are given); on the way back peppi / start / frames are required, end / metadata / gecko optional,
   hash and quirks come from peppi.json.  The model writer and reader ARE the table-driven ones ---- *)
Theorem C02_slpp_writer_from_source : forall enc_peppi enc_meta enc_start enc_end enc_frames o g,
  slpp_write enc_peppi enc_meta enc_start enc_end enc_frames (comp_of_opts o) g =
  slpp_write_tbl enc_peppi enc_meta enc_start enc_end enc_frames o g.
Proof. exact slpp_write_from_source. Qed.
Theorem C02_slpp_reader_assembly_from_source : forall dec_peppi dec_meta dec_frames skip es,
  slpp_read dec_peppi dec_meta dec_frames skip es =
  (a <- read_entries dec_peppi dec_meta dec_frames skip es racc0 ;; assemble_tbl a).
Proof. exact slpp_read_from_source. Qed.
Theorem C02_option_defaults_from_source :
  (ser_comp None = Some CNone /\ ser_comp (Some slpp_ser_opts_default) = ser_comp None) /\
  (de_skip None = Some false /\ de_skip (Some slpp_de_opts_default) = de_skip None).
Proof. exact (conj (conj (proj1 ser_none_from_source) (proj1 (proj2 ser_none_from_source)))
                   (conj (proj1 de_none_from_source) (proj1 (proj2 de_none_from_source)))). Qed.

From Peppi Require Proofs.ReaderTies Proofs.WriterTies.
(* the reader model these theorems speak about is the one regenerated from the source on this run: one-shot read, every incremental
   entry point, the event dispatch with the splitter, the Game Start wiring, the metadata reader (Proofs/ReaderTies.v reader_tied) *)
Theorem C02_reader_is_the_source : ReaderTies.reader_tied.
Proof. exact ReaderTies.reader_tied_holds. Qed.
(* the writer model these theorems speak about is the one regenerated from the source on this run: the statement sequence of write(),
   the payload-size table, the frame counts, the frame writer, the gecko blocks, the metadata writer (Proofs/WriterTies.v writer_tied) *)
Theorem C02_writer_is_the_source : WriterTies.writer_tied.
Proof. exact WriterTies.writer_tied_holds. Qed.

Print Assumptions C02_roundtrip.
Print Assumptions C02_full_chain.
Print Assumptions C02_write_refuses_only_new_versions.
Print Assumptions C02_written_entries_from_source.
Print Assumptions C02_read_names_from_source.
Print Assumptions C02_gecko_prefix_from_source.
Print Assumptions C02_metadata_arms_from_source.
Print Assumptions C02_frame_export_from_source.
Print Assumptions C02_frame_import_positions_from_source.
Print Assumptions C02_slpp_writer_from_source.
Print Assumptions C02_slpp_reader_assembly_from_source.
Print Assumptions C02_option_defaults_from_source.
Print Assumptions C02_reader_is_the_source.
Print Assumptions C02_writer_is_the_source.
