(* C10 -- Skip-frames parsing returns the same start, end and metadata as a full parse (.slp part).
   Reader model Model/Reader.v (the skip block of read()), replay model Model/Recorder.v. *)
From Coq Require Import List Arith NArith ZArith Bool String.
From Coq.Strings Require Import Byte.
From Peppi Require Import Base.Bytes Base.Outcome Gen.Funs Model.Ubjson Model.Start Model.Parse Model.Reader Model.Writer Model.Recorder
  Proofs.TableFacts Proofs.ReadProof Proofs.Corollaries Proofs.Examples.
Import ListNotations.

(* for EVERY finished well-formed replay (any version, gecko blocks or not, single or doubled Game End, metadata
   or not), hashing on or off: the skipping read succeeds, consumes the whole file, and returns exactly the game
   of the replay with an empty frame set *)
Theorem C10_skip_read : forall r st h,
  wf_replay r = true -> game_start (r_start r) = ROk st -> finished r = true ->
  slp_read {| o_skip := true; o_hash := h |} (emit r)
  = Ok (game_of {| o_skip := true; o_hash := h |} r st (end_of r), []).
Proof. intros r st h Hwf Hst Hfin. exact (read_skipping r st Hwf Hst h Hfin). Qed.

Theorem C10_skip_equals_full : forall r st h h',
  wf_replay r = true -> game_start (r_start r) = ROk st -> finished r = true ->
  exists gf gs,
    slp_read {| o_skip := false; o_hash := h |} (emit r) = Ok (gf, []) /\
    slp_read {| o_skip := true; o_hash := h' |} (emit r) = Ok (gs, []) /\
    g_start gs = g_start gf /\ g_end gs = g_end gf /\ g_meta gs = g_meta gf /\
    g_frames gs = frames_new (st_version (g_start gf)) (port_occupancy (g_start gf)) /\
    f_ids (g_frames gs) = [].
Proof. exact c10_skip_vs_full. Qed.

Theorem C10_nonvacuous :
  (wf_replay ex_r37 = true /\ res_is_ok (game_start (r_start ex_r37)) = true /\ finished ex_r37 = true) /\
  (wf_replay ex_r10 = true /\ res_is_ok (game_start (r_start ex_r10)) = true /\ finished ex_r10 = true).
Proof. exact (conj ex_r37_wf ex_r10_wf). Qed.

Print Assumptions C10_skip_read.
Print Assumptions C10_skip_equals_full.
Print Assumptions C10_nonvacuous.
