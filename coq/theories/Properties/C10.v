(* C10 -- Skip-frames parsing returns the same start, end and metadata as a full parse (.slp part).
   Reader model Model/Reader.v (the skip block of read()), replay model Model/Recorder.v. *)
From Coq Require Import List Arith NArith ZArith Bool String.
From Coq.Strings Require Import Byte.
From Peppi Require Import Base.Bytes Base.Outcome Gen.Funs Model.Ubjson Model.Start Model.Parse Model.Reader Model.Writer Model.Recorder
  Gen.ReadTail Proofs.TableFacts Proofs.ReadProof Proofs.Corollaries Proofs.C10Proof Proofs.ReadLayout Proofs.Examples.
Import ListNotations.

(* for EVERY finished well-formed replay (any version, gecko blocks or not, single or doubled Game End, metadata
   or not), hashing on or off: the skipping read succeeds, consumes the whole file, and returns exactly the game
   of the replay with an empty frame set *)
Theorem C10_skip_read : forall r st h,
  wf_replay r = true -> game_start (r_start r) = ROk st -> finished r = true ->
  slp_read {| o_skip := true; o_hash := h |} (emit r)
  = Ok (game_of {| o_skip := true; o_hash := h |} r st (end_of r), []).
Proof. intros r st h Hwf Hst Hfin. exact (read_skipping r st Hwf Hst h Hfin). Qed.

Theorem C10_skip_equals_full : forall r st h h',
  wf_replay r = true -> game_start (r_start r) = ROk st -> finished r = true ->
  exists gf gs,
    slp_read {| o_skip := false; o_hash := h |} (emit r) = Ok (gf, []) /\
    slp_read {| o_skip := true; o_hash := h' |} (emit r) = Ok (gs, []) /\
    g_start gs = g_start gf /\ g_end gs = g_end gf /\ g_meta gs = g_meta gf /\
    g_frames gs = frames_new (st_version (g_start gf)) (port_occupancy (g_start gf)) /\
    f_ids (g_frames gs) = [].
Proof. exact c10_skip_vs_full. Qed.

(* "the result can itself be written out and re-read": writing the skip-frames result gives the canonical stream of
   the frame-less replay (same start, one Game End, same metadata), which reads back -- skipping or not -- to the same
   start, end, metadata and empty frame set, and re-writes to the same bytes *)
Theorem C10_skip_result_writable : forall r st h,
  wf_replay r = true -> game_start (r_start r) = ROk st -> finished r = true ->
  let gs := game_of {| o_skip := true; o_hash := h |} r st (end_of r) in
  slp_read {| o_skip := true; o_hash := h |} (emit r) = Ok (gs, []) /\
  slp_write gs = Ok (emit (skipped r)) /\
  (forall sk, exists g2, slp_read {| o_skip := sk; o_hash := h |} (emit (skipped r)) = Ok (g2, []) /\
      g_start g2 = g_start gs /\ g_end g2 = g_end gs /\ g_meta g2 = g_meta gs /\ g_frames g2 = g_frames gs /\
      g_gecko g2 = g_gecko gs /\ g_quirk g2 = g_quirk gs /\ slp_write g2 = Ok (emit (skipped r))).
Proof. exact c10_skip_result_writable. Qed.

(* the skip arithmetic (end offset, refusal condition, skip amount), the loop condition and its break event, the gate of the
   final frame close, the duplicate-Game-End test and the metadata dispatch bytes of the reader model are those regenerated
   from src/io/slippi/de.rs read() on this run: the whole reader model equals the reader assembled from the regenerated pieces *)
Theorem C10_reader_from_source : forall o bs0, slp_read o bs0 = slp_read_src o bs0.
Proof. exact slp_read_from_source. Qed.

Theorem C10_nonvacuous :
  (wf_replay ex_r37 = true /\ res_is_ok (game_start (r_start ex_r37)) = true /\ finished ex_r37 = true) /\
  (wf_replay ex_r10 = true /\ res_is_ok (game_start (r_start ex_r10)) = true /\ finished ex_r10 = true).
Proof. exact (conj ex_r37_wf ex_r10_wf). Qed.

From Peppi Require Import Model.Json Model.Slpp Gen.SlppEntries Proofs.SlppLayout.
(* ---- the .slpp skip-frames read goes through the same entry dispatch (regenerated): same names, same stopping entry ---- *)
Theorem C10_written_entries_from_source : forall enc_peppi enc_meta enc_start enc_end enc_frames c g es,
  slpp_write enc_peppi enc_meta enc_start enc_end enc_frames c g = Ok es ->
  map fst es = written_names (is_some (g_end (sg_game g))) (is_some (g_gecko (sg_game g))) /\
  map (fun x => sb (fst x)) (filter snd slpp_read_names) = [last (map fst es) []].
Proof. exact (fun ep em es_ ee ef c g es H => conj (slpp_write_entries_from_source ep em es_ ee ef c g es H) (slpp_last_entry_from_source ep em es_ ee ef c g es H)). Qed.
Theorem C10_read_names_from_source : forall p, kind_of p = kind_of_tbl slpp_read_targets p.
Proof. exact slpp_read_names_from_source. Qed.

From Peppi Require Import Gen.SlppReadSrc Proofs.SlppReadLayout.
(* ---- the .slpp skip-frames branch, regenerated: an empty frame table of capacity 0, independent of the entry's bytes; and
   read_arrow_frames accepts exactly one record batch, empty or not (so a zero-frame game reads back) ---- *)
Theorem C10_slpp_skip_branch_from_source : forall dec_frames,
  (exists v f, In (FbEmptyFrames 0%N v f) slpp_frames_when_skip) /\
  (forall a ver d1 d2 c1 c2,
     run_branch dec_frames slpp_frames_when_skip a ver d1 c1 fregs0 = run_branch dec_frames slpp_frames_when_skip a ver d2 c2 fregs0).
Proof. exact frames_arm_skip_from_source. Qed.
Theorem C10_one_batch_from_source : forall (A B : Type) (dec : A -> B) items b,
  raf_tbl dec items = Ok b <-> (exists x xs, items = [SiChunk (x :: xs)] /\ b = dec x).
Proof. exact (fun A B => @raf_ok_iff_from_source A B). Qed.

From Peppi Require Proofs.ReaderTies Proofs.WriterTies.
(* the reader model these theorems speak about is the one regenerated from the source on this run: one-shot read, every incremental
   entry point, the event dispatch with the splitter, the Game Start wiring, the metadata reader (Proofs/ReaderTies.v reader_tied) *)
Theorem C10_reader_is_the_source : ReaderTies.reader_tied.
Proof. exact ReaderTies.reader_tied_holds. Qed.
(* the writer model these theorems speak about is the one regenerated from the source on this run: the statement sequence of write(),
   the payload-size table, the frame counts, the frame writer, the gecko blocks, the metadata writer (Proofs/WriterTies.v writer_tied) *)
Theorem C10_writer_is_the_source : WriterTies.writer_tied.
Proof. exact WriterTies.writer_tied_holds. Qed.

Print Assumptions C10_skip_read.
Print Assumptions C10_skip_equals_full.
Print Assumptions C10_skip_result_writable.
Print Assumptions C10_nonvacuous.
Print Assumptions C10_reader_from_source.
Print Assumptions C10_written_entries_from_source.
Print Assumptions C10_read_names_from_source.
Print Assumptions C10_slpp_skip_branch_from_source.
Print Assumptions C10_one_batch_from_source.
Print Assumptions C10_reader_is_the_source.
Print Assumptions C10_writer_is_the_source.
