(* C11 -- The replay hash covers exactly the file's bytes (which bytes are hashed; the digest function itself and its
   formatting are checked by the correspondence run against an independent XXH3 implementation).
   [g_hashed g = Some n]: hashing was on and exactly the first n bytes of the input went through the hasher. *)
From Coq Require Import List Arith NArith ZArith Bool String.
From Coq.Strings Require Import Byte.
From Peppi Require Import Base.Bytes Base.Outcome Gen.Funs Model.Ubjson Model.Start Model.Parse Model.Reader Model.Writer Model.Recorder
  Proofs.TableFacts Proofs.ReadProof Proofs.Corollaries.
Import ListNotations.

(* for every well-formed replay, with or without skip-frames (skip needs a finished replay): the read consumes the
   whole file and the hashed prefix is the whole file, through the closing brace; no hash when not requested.
   In particular the value does not depend on the skip-frames option. *)
Theorem C11_hash_covers_file : forall r st (sk h : bool),
  wf_replay r = true -> game_start (r_start r) = ROk st -> (sk = true -> finished r = true) ->
  exists g, slp_read {| o_skip := sk; o_hash := h |} (emit r) = Ok (g, []) /\
            g_hashed g = if h then Some (List.length (emit r)) else None.
Proof. exact c11_hash_covers_file. Qed.

Print Assumptions C11_hash_covers_file.
