(* C11 -- The replay hash covers exactly the file's bytes (which bytes are hashed; the digest function itself and its
   formatting are checked by the correspondence run against an independent XXH3 implementation).
   [g_hashed g = Some n]: hashing was on and exactly the first n bytes of the input went through the hasher. *)
From Coq Require Import List Arith NArith ZArith Bool String.
From Coq.Strings Require Import Byte.
From Peppi Require Import Base.Bytes Base.Outcome Gen.Funs Model.Ubjson Model.Start Model.Parse Model.Reader Model.Writer Model.Recorder
  Model.Frag Model.FragSkip Proofs.TableFacts Proofs.ReadProof Proofs.Corollaries Proofs.FragProof Proofs.FragSkipProof.
Import ListNotations.

(* for every well-formed replay, with or without skip-frames (skip needs a finished replay): the read consumes the
   whole file and the hashed prefix is the whole file, through the closing brace; no hash when not requested.
   In particular the value does not depend on the skip-frames option. *)
Theorem C11_hash_covers_file : forall r st (sk h : bool),
  wf_replay r = true -> game_start (r_start r) = ROk st -> (sk = true -> finished r = true) ->
  exists g, slp_read {| o_skip := sk; o_hash := h |} (emit r) = Ok (g, []) /\
            g_hashed g = if h then Some (List.length (emit r)) else None.
Proof. exact c11_hash_covers_file. Qed.

(* "however they arrive": the stream is delivered by an underlying reader that fragments reads according to ANY
   schedule (Model/Frag.v: short reads of any sizes, Interrupted retries; read_exact as std implements it; the
   hashing wrapper feeds the hasher exactly what each read() returned).  For every input on which the flat reader
   succeeds, the fragmented run returns the same game, leaves the same rest, and the hasher was fed exactly the
   consumed prefix, whose length is the count the game reports. *)
Theorem C11_digest_any_fragmentation : forall data sched g rest,
  no_fault sched ->
  slp_read {| o_skip := false; o_hash := true |} data = Ok (g, rest) ->
  let '(res, h') := run_frag (p_slp_read true (List.length data)) (mk_hreader data sched (Some [])) in
  res = Ok g /\ fs_data (hr_inner h') = rest /\
  exists used, data = used ++ rest /\ hr_hashed h' = Some used /\ g_hashed g = Some (List.length used).
Proof. exact slp_read_frag_digest. Qed.

(* the same for the skip-frames read (io::copy(take(skip)) when hashing: every copied byte goes through the hasher, the
   copy stops silently at end of data; seek when not hashing, which disables the hasher) *)
Theorem C11_digest_any_fragmentation_skip : forall data sched g rest,
  no_fault sched ->
  slp_read {| o_skip := true; o_hash := true |} data = Ok (g, rest) ->
  let '(res, h') := run_frag2 (p_slp_read_skip true (List.length data)) (mk_hreader data sched (Some [])) in
  res = Ok g /\ fs_data (hr_inner h') = rest /\
  exists used, data = used ++ rest /\ hr_hashed h' = Some used /\ g_hashed g = Some (List.length used).
Proof. exact slp_read_skip_frag_digest. Qed.
Theorem C11_skip_program_is_reader : forall hash bs0,
  run_flat2 (p_slp_read_skip hash (List.length bs0)) bs0 = slp_read {| o_skip := true; o_hash := hash |} bs0.
Proof. exact run_flat2_slp_read_skip. Qed.

(* end to end: EVERY well-formed file, delivered under ANY fault-free schedule: the hasher is fed exactly the file *)
Theorem C11_wellformed_full : forall r st sched,
  wf_replay r = true -> game_start (r_start r) = ROk st -> no_fault sched ->
  let data := emit r in
  let '(res, h') := run_frag (p_slp_read true (List.length data)) (mk_hreader data sched (Some [])) in
  res = Ok (game_of {| o_skip := false; o_hash := true |} r st (end_of r)) /\
  fs_data (hr_inner h') = [] /\ hr_hashed h' = Some data.
Proof. exact read_full_frag. Qed.
Theorem C11_wellformed_skip : forall r st sched,
  wf_replay r = true -> game_start (r_start r) = ROk st -> finished r = true -> no_fault sched ->
  let data := emit r in
  let '(res, h') := run_frag2 (p_slp_read_skip true (List.length data)) (mk_hreader data sched (Some [])) in
  res = Ok (game_of {| o_skip := true; o_hash := true |} r st (end_of r)) /\
  fs_data (hr_inner h') = [] /\ hr_hashed h' = Some data.
Proof. exact read_skipping_frag. Qed.

(* two schedules: same result, same remaining data, same hashed bytes -- for any program of exact reads *)
Theorem C11_schedule_independent : forall (A : Type) (p : prog A) data s1 s2 hashed0,
  no_fault s1 -> no_fault s2 ->
  let r1 := run_frag p (mk_hreader data s1 hashed0) in
  let r2 := run_frag p (mk_hreader data s2 hashed0) in
  fst r1 = fst r2 /\ fs_data (hr_inner (snd r1)) = fs_data (hr_inner (snd r2)) /\ hr_hashed (snd r1) = hr_hashed (snd r2).
Proof. exact @schedule_independent. Qed.

(* the program run above IS the reader model *)
Theorem C11_program_is_reader : forall hash bs0,
  run_flat (p_slp_read hash (List.length bs0)) bs0 = slp_read {| o_skip := false; o_hash := hash |} bs0.
Proof. exact run_flat_slp_read. Qed.

From Peppi Require Import Gen.HashingSrc Proofs.HashingLayout.
(* ---- HashingReader (new / read / seek / into_digest), format_hash and the option defaults of read(), regenerated
   (Gen/HashingSrc.v): one read call feeds the hasher exactly the bytes that call returned; a seek drops the hasher; with no options
   at all nothing is hashed and no frames are skipped; the text is "xxh3:" + 16 lower-case zero-padded hex digits of digest() *)
Theorem C11_read_call_from_source : forall len h, hread_tbl len h = Some (hread len h).
Proof. exact hread_from_source. Qed.
Theorem C11_option_defaults_from_source :
  opts_of_src None = {| o_skip := false; o_hash := false |} /\ forall o, opts_of_src (Some o) = o.
Proof. exact opts_from_source. Qed.
Theorem C11_skip_path_from_source : forall hash total, p_slp_read_skip hash total = p_slp_read_skip_src hash total.
Proof. exact p_slp_read_skip_from_source. Qed.
Theorem C11_hash_text_from_source :
  hash_prefix = [120; 120; 104; 51; 58]%N /\ hash_hex_width = 16%nat /\ hash_hex_zero_padded = true /\
  hash_hex_uppercase = false /\ hash_digest_method = "digest"%string /\
  hr_digest_format_fn = "format_hash"%string /\
  (forall d, List.length (hash_text d) = 21%nat) /\
  hash_text 6345550409572837658%N =
    [120; 120; 104; 51; 58; 53; 56; 48; 102; 101; 99; 55; 97; 51; 50; 101; 99; 54; 57; 49; 97]%N.
Proof. exact format_hash_from_source. Qed.

From Peppi Require Proofs.ReaderTies.
(* the reader model these theorems speak about is the one regenerated from the source on this run: one-shot read, every incremental
   entry point, the event dispatch with the splitter, the Game Start wiring, the metadata reader (Proofs/ReaderTies.v reader_tied) *)
Theorem C11_reader_is_the_source : ReaderTies.reader_tied.
Proof. exact ReaderTies.reader_tied_holds. Qed.

Print Assumptions C11_hash_covers_file.
Print Assumptions C11_digest_any_fragmentation.
Print Assumptions C11_schedule_independent.
Print Assumptions C11_program_is_reader.
Print Assumptions C11_digest_any_fragmentation_skip.
Print Assumptions C11_skip_program_is_reader.
Print Assumptions C11_wellformed_full.
Print Assumptions C11_wellformed_skip.
Print Assumptions C11_read_call_from_source.
Print Assumptions C11_option_defaults_from_source.
Print Assumptions C11_skip_path_from_source.
Print Assumptions C11_hash_text_from_source.
Print Assumptions C11_reader_is_the_source.
