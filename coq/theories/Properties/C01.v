(* C01 -- Reading a .slp and writing it back reproduces the file byte for byte.
   Replay/recorder model Model/Recorder.v (what "well-formed" means, the canonical byte stream [emit r], the game
   [game_of r] a replay denotes); reader model Model/Reader.v + Model/Parse.v; writer model Model/Writer.v; row
   layouts through the regenerated tables (Gen/Tables.v).  The theorem is split at the game value:
   read (emit r) = game_of r  and  write (game_of r) = emit r. *)
From Coq Require Import List Arith NArith ZArith Bool String.
From Coq.Strings Require Import Byte.
From Peppi Require Import Base.Bytes Base.Outcome Base.Stream Layout.Syntax Gen.Funs Gen.Tables Layout.Sem Layout.Rows Layout.Shapes
  Layout.RowsTheory Model.Ubjson Model.Start Model.Parse Model.Reader Model.Writer Model.Recorder
  Gen.WriterSizes Gen.FrameWrite Gen.Splitter Proofs.TableFacts Proofs.ReadProof Proofs.WriteProof Proofs.Corollaries Proofs.WriterLayout
  Gen.WriterRaw Gen.WriterSteps Proofs.FrameWriteLayout Proofs.SplitterLayout Proofs.WriterRawLayout Proofs.WriterStepsLayout Proofs.Examples.
Import ListNotations.

(* reader half, for EVERY well-formed replay: any version up to the maximum, any occupied ports, any frame
   history (rollbacks, absent characters, items), gecko blocks or none, Game End single / doubled / missing,
   metadata or none; hashing on or off.  The whole input is consumed (rest = []). *)
Theorem C01_read : forall r st h,
  wf_replay r = true -> game_start (r_start r) = ROk st ->
  slp_read {| o_skip := false; o_hash := h |} (emit r)
  = Ok (game_of {| o_skip := false; o_hash := h |} r st (end_of r), []).
Proof. intros r st h Hwf Hst. exact (read_full r st Hwf Hst h). Qed.

(* writer half, for EVERY well-formed replay: writing the game the replay denotes reproduces the canonical stream,
   byte for byte (payload table, declared raw length, gecko blocks, frames in canonical order, end(s), metadata) *)
Theorem C01_write : forall r st h,
  wf_replay r = true -> game_start (r_start r) = ROk st ->
  slp_write (game_of {| o_skip := false; o_hash := h |} r st (end_of r)) = Ok (emit r).
Proof. exact c01_write. Qed.

(* the property as stated: read, then write, gives back the input *)
Theorem C01_roundtrip : forall r st h,
  wf_replay r = true -> game_start (r_start r) = ROk st ->
  exists g, slp_read {| o_skip := false; o_hash := h |} (emit r) = Ok (g, []) /\ slp_write g = Ok (emit r).
Proof. exact c01_roundtrip. Qed.

(* same-shape obligations on the regenerated tables, used by the writer half: the reader and writer tables of each
   frame-level record enumerate the same fields, primitives and version gates, and size() agrees with them *)
Theorem C01_tables_same_shape :
  forallb same_rw ["Pre"; "Post"; "Start"; "End"; "Item"]%string = true /\
  forallb same_size ["Pre"; "Post"; "Start"; "End"; "Item"]%string = true /\ size_table_pure = true.
Proof. exact (conj same_rw_all (conj same_size_all size_table_pure_ok)). Qed.

(* hence the writer re-encodes a row to itself and size() is the row size, for every version *)
Theorem C01_write_row_identity : forall v E r,
  In E ["Pre"; "Post"; "Start"; "End"; "Item"]%string -> List.length r = row_size v E -> write_row v E r = r.
Proof. exact write_row_id_frames. Qed.
Theorem C01_size_fn : forall v E, In E ["Pre"; "Post"; "Start"; "End"; "Item"]%string -> size_fn v E = row_size v E.
Proof. exact size_fn_row_size_frames. Qed.

(* the writer's payload-size table (which events, in which order, under which version gates, of which sizes) is the one
   regenerated from src/io/slippi/ser.rs payload_sizes on this run (Gen/WriterSizes.v), including the u16 conversions *)
Theorem C01_payload_sizes_from_source : forall g, payload_sizes g = payload_sizes_of_tbl payload_sizes_src_tbl g.
Proof. exact payload_sizes_from_source. Qed.

(* the canonical order in which a frame is written (Frame Start, every port's pre events, the frame's items, every port's
   post events, Frame End), the version gates of the groups, the event headers (code, frame id, port, follower flag) and the
   gecko splitter blocks are those regenerated from src/frame/immutable/slippi.rs and src/io/slippi/ser.rs on this run *)
Theorem C01_frame_write_from_source : forall v fr idx id,
  write_frame v fr idx id = write_frame_tbl frame_write_steps v fr idx id.
Proof. exact write_frame_from_source. Qed.
Theorem C01_gecko_blocks_from_source : forall fuel pos c, gecko_blocks fuel pos c = gecko_blocks_tbl gecko_write_steps fuel pos c.
Proof. exact gecko_blocks_from_source. Qed.

(* the top-level sequence of the writer (version check, payload table, signature, declared raw length, table entries, Game Start,
   gecko blocks, frames, Game End once or twice, metadata block, closing brace) is the step list regenerated from
   src/io/slippi/ser.rs write() on this run: the writer model IS the interpreter of that list, errors and panics included *)
Theorem C01_writer_from_source : forall g, slp_write g = slp_write_of_steps write_steps g.
Proof. exact slp_write_from_source. Qed.

(* non-vacuity: concrete well-formed replays in each framing regime (rollback, absent characters, items, gecko
   blocks, doubled / missing Game End, metadata / none) *)
Theorem C01_nonvacuous :
  (wf_replay ex_r37 = true /\ res_is_ok (game_start (r_start ex_r37)) = true /\ finished ex_r37 = true) /\
  (wf_replay ex_r25 = true /\ res_is_ok (game_start (r_start ex_r25)) = true) /\
  (wf_replay ex_r10 = true /\ res_is_ok (game_start (r_start ex_r10)) = true /\ finished ex_r10 = true).
Proof. exact (conj ex_r37_wf (conj ex_r25_wf ex_r10_wf)). Qed.

From Peppi Require Proofs.ReaderTies Proofs.WriterTies.
(* the reader model these theorems speak about is the one regenerated from the source on this run: one-shot read, every incremental
   entry point, the event dispatch with the splitter, the Game Start wiring, the metadata reader (Proofs/ReaderTies.v reader_tied) *)
Theorem C01_reader_is_the_source : ReaderTies.reader_tied.
Proof. exact ReaderTies.reader_tied_holds. Qed.
(* the writer model these theorems speak about is the one regenerated from the source on this run: the statement sequence of write(),
   the payload-size table, the frame counts, the frame writer, the gecko blocks, the metadata writer (Proofs/WriterTies.v writer_tied) *)
Theorem C01_writer_is_the_source : WriterTies.writer_tied.
Proof. exact WriterTies.writer_tied_holds. Qed.

Print Assumptions C01_read.
Print Assumptions C01_write.
Print Assumptions C01_roundtrip.
Print Assumptions C01_tables_same_shape.
Print Assumptions C01_write_row_identity.
Print Assumptions C01_size_fn.
Print Assumptions C01_payload_sizes_from_source.
Print Assumptions C01_nonvacuous.
Print Assumptions C01_frame_write_from_source.
Print Assumptions C01_gecko_blocks_from_source.
Print Assumptions C01_writer_from_source.
Print Assumptions C01_reader_is_the_source.
Print Assumptions C01_writer_is_the_source.
