(* C19 -- Name fields decode as Shift-JIS up to the first NUL; normalisation is exact.
   fix_char is regenerated from src/game/shift_jis.rs; the Shift-JIS decoder (encoding_rs) is an arbitrary
   strict decoder [dec] (None = invalid sequence): the theorems hold for every such function. *)
From Coq Require Import List NArith Bool.
From Coq.Strings Require Import Byte.
From Peppi Require Import Base.Bytes Gen.Funs Model.Start Model.ShiftJis.
Import ListNotations.
Local Open Scope N_scope.

(* bytes after the first NUL never influence the result *)
Theorem C19_tail_irrelevant : forall dec pre a b,
  ~ In x00 pre -> melee_of dec (pre ++ x00 :: a) = melee_of dec (pre ++ x00 :: b).
Proof. exact melee_tail_irrelevant. Qed.

(* the field is decoded from its first byte up to but excluding the first NUL *)
Theorem C19_prefix : forall dec pre a, ~ In x00 pre -> melee_of dec (pre ++ x00 :: a) = dec pre.
Proof. exact melee_prefix. Qed.

(* an invalid sequence is an error (never a replacement character: the decoder's None is propagated) *)
Theorem C19_invalid : forall dec bs, dec (take_until_nul bs) = None -> melee_of dec bs = None.
Proof. exact melee_invalid. Qed.

(* normalisation is exactly the stated map, for every code point *)
Theorem C19_fix_char_spec : forall c, fix_char_u32 c = norm_spec c.
Proof. exact fix_char_spec. Qed.

Theorem C19_leaves_others_unchanged : forall c,
  (65281 <=? c) && (c <=? 65374) = false -> c <> 12288 -> c <> 8217 -> c <> 8221 -> fix_char_u32 c = c.
Proof. exact fix_char_other. Qed.

(* the u32 arithmetic cannot wrap, and the result is a scalar value, so char::try_from(..).unwrap() cannot panic *)
Theorem C19_no_wrap : forall c, c < 4294967296 ->
  (65281 <=? c) && (c <=? 65374) = true -> c + 32 < 4294967296 /\ 65280 <= c + 32.
Proof. exact fix_char_no_wrap. Qed.

Theorem C19_scalar : forall c, is_scalar c = true -> is_scalar (fix_char_u32 c) = true.
Proof. exact fix_char_scalar. Qed.

Theorem C19_idempotent : forall s, to_normalized (to_normalized s) = to_normalized s.
Proof. exact to_normalized_idem. Qed.

From Coq Require Import String.
From Peppi Require Import Base.Outcome Gen.Layouts Gen.MeleeStringSrc Proofs.MeleeStringLayout.
(* ---- MeleeString::try_from / to_normalized and their call sites in fn player, regenerated (Gen/MeleeStringSrc.v): the cut byte and
   its default, the slice, the strict decoder method, the two arms, the mapped function; which parameter each name field is decoded
   from, and that every call propagates its error *)
Theorem C19_melee_of_from_source : forall dec bs, melee_of_tbl dec bs = Some (melee_of dec bs).
Proof. exact melee_of_from_source. Qed.
Theorem C19_slice_from_source : forall bs, melee_slice_tbl bs = Some (take_until_nul bs).
Proof. exact take_until_nul_from_source. Qed.
Theorem C19_to_normalized_from_source : forall s, to_normalized s = map (char_fn melee_normalize_map) s.
Proof. exact to_normalized_from_source. Qed.
Theorem C19_fields_from_source :
  map (fun c => fst (fst c)) melee_string_calls = ["name_tag"; "netplay.name"; "netplay.code"]%string /\
  map (fun c => block_size (snd (fst c))) melee_string_calls = [Some 16; Some 31; Some 10]%nat.
Proof. exact (conj (proj1 melee_calls_from_source) melee_blocks_from_source). Qed.
(* an invalid sequence in a name field that is present never yields a player (nor "no player"): the error propagates *)
Theorem C19_invalid_field_is_error : forall port v0b teams v1_0 v1_3 nb cb v311,
  let blk := blk_named v1_3 nb cb in
  (forall b, blk (src_of "name_tag") = Some b -> melee_string b = SjErr ->
             forall x, player_of port v0b teams v1_0 v1_3 nb cb v311 <> ROk x) /\
  (forall n c, blk (src_of "netplay.name") = Some n -> blk (src_of "netplay.code") = Some c ->
               melee_string n = SjErr \/ melee_string c = SjErr ->
               forall x, player_of port v0b teams v1_0 v1_3 nb cb v311 <> ROk x).
Proof. exact player_melee_error_from_source. Qed.

From Peppi Require Import Gen.StartWiring Proofs.StartWiringLayout.
(* the collecting pipeline of game_start (regenerated): a decoding error of ANY port's player makes the whole Game Start an error --
   it is never swallowed into "one player fewer" *)
Theorem C19_player_errors_propagate_from_source :
  start_players_pipeline = [PpFilterMapTranspose; PpCollectResultVec; PpQuestion] /\
  start_players_errors_propagate = true /\ start_players_none_dropped = true /\
  start_players_field = "players"%string /\
  (forall blk env, In RErr (map (fun n => player_call (map (fun ws => arg_val blk env n (snd ws)) start_player_wiring))
                                (seq (fst start_player_range) (snd start_player_range - fst start_player_range))) ->
                   players_of_tbl blk env = RErr).
Proof. exact wiring_pipeline_from_source. Qed.

Print Assumptions C19_tail_irrelevant.
Print Assumptions C19_prefix.
Print Assumptions C19_invalid.
Print Assumptions C19_fix_char_spec.
Print Assumptions C19_leaves_others_unchanged.
Print Assumptions C19_no_wrap.
Print Assumptions C19_scalar.
Print Assumptions C19_idempotent.
Print Assumptions C19_melee_of_from_source.
Print Assumptions C19_slice_from_source.
Print Assumptions C19_to_normalized_from_source.
Print Assumptions C19_fields_from_source.
Print Assumptions C19_invalid_field_is_error.
Print Assumptions C19_player_errors_propagate_from_source.
