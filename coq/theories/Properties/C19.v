(* C19 -- Name fields decode as Shift-JIS up to the first NUL; normalisation is exact.
   fix_char is regenerated from src/game/shift_jis.rs; the Shift-JIS decoder (encoding_rs) is an arbitrary
   strict decoder [dec] (None = invalid sequence): the theorems hold for every such function. *)
From Coq Require Import List NArith Bool.
From Coq.Strings Require Import Byte.
From Peppi Require Import Base.Bytes Gen.Funs Model.Start Model.ShiftJis.
Import ListNotations.
Local Open Scope N_scope.

(* bytes after the first NUL never influence the result *)
Theorem C19_tail_irrelevant : forall dec pre a b,
  ~ In x00 pre -> melee_of dec (pre ++ x00 :: a) = melee_of dec (pre ++ x00 :: b).
Proof. exact melee_tail_irrelevant. Qed.

(* the field is decoded from its first byte up to but excluding the first NUL *)
Theorem C19_prefix : forall dec pre a, ~ In x00 pre -> melee_of dec (pre ++ x00 :: a) = dec pre.
Proof. exact melee_prefix. Qed.

(* an invalid sequence is an error (never a replacement character: the decoder's None is propagated) *)
Theorem C19_invalid : forall dec bs, dec (take_until_nul bs) = None -> melee_of dec bs = None.
Proof. exact melee_invalid. Qed.

(* normalisation is exactly the stated map, for every code point *)
Theorem C19_fix_char_spec : forall c, fix_char_u32 c = norm_spec c.
Proof. exact fix_char_spec. Qed.

Theorem C19_leaves_others_unchanged : forall c,
  (65281 <=? c) && (c <=? 65374) = false -> c <> 12288 -> c <> 8217 -> c <> 8221 -> fix_char_u32 c = c.
Proof. exact fix_char_other. Qed.

(* the u32 arithmetic cannot wrap, and the result is a scalar value, so char::try_from(..).unwrap() cannot panic *)
Theorem C19_no_wrap : forall c, c < 4294967296 ->
  (65281 <=? c) && (c <=? 65374) = true -> c + 32 < 4294967296 /\ 65280 <= c + 32.
Proof. exact fix_char_no_wrap. Qed.

Theorem C19_scalar : forall c, is_scalar c = true -> is_scalar (fix_char_u32 c) = true.
Proof. exact fix_char_scalar. Qed.

Theorem C19_idempotent : forall s, to_normalized (to_normalized s) = to_normalized s.
Proof. exact to_normalized_idem. Qed.

Print Assumptions C19_tail_irrelevant.
Print Assumptions C19_prefix.
Print Assumptions C19_invalid.
Print Assumptions C19_fix_char_spec.
Print Assumptions C19_leaves_others_unchanged.
Print Assumptions C19_no_wrap.
Print Assumptions C19_scalar.
Print Assumptions C19_idempotent.
