(* C15 -- Rollback de-duplication marks all but the first/last occurrence of each frame id.
   Hand model Model/Rollbacks.v of Frame::rollbacks (FIRST_INDEX regenerated from src/frame/mod.rs). *)
From Coq Require Import List ZArith.
From Peppi Require Import Base.Outcome Gen.Funs Model.Rollbacks Proofs.C15Proof.
Import ListNotations.
Local Open Scope Z_scope.

(* keep-first: no panic, one boolean per row, row k marked iff an earlier row has the same id *)
Theorem C15_first : forall ids, Forall (fun id => FIRST_INDEX <= id) ids ->
  exists mask, rollbacks ExceptFirst ids = Ok mask /\ length mask = length ids /\
    forall k, (k < length ids)%nat ->
      (nth k mask false = true <-> exists j, (j < k)%nat /\ nth j ids 0 = nth k ids 0).
Proof. exact c15_first. Qed.

(* keep-last: row k marked iff a later row has the same id *)
Theorem C15_last : forall ids, Forall (fun id => FIRST_INDEX <= id) ids ->
  exists mask, rollbacks ExceptLast ids = Ok mask /\ length mask = length ids /\
    forall k, (k < length ids)%nat ->
      (nth k mask false = true <-> exists j, (k < j < length ids)%nat /\ nth j ids 0 = nth k ids 0).
Proof. exact c15_last. Qed.

Theorem C15_unmarked_first : forall ids mask, Forall (fun id => FIRST_INDEX <= id) ids ->
  rollbacks ExceptFirst ids = Ok mask ->
  forall k, (k < length ids)%nat ->
    (nth k mask false = false <-> forall j, (j < k)%nat -> nth j ids 0 <> nth k ids 0).
Proof. exact c15_unmarked_first. Qed.

Theorem C15_nodup : forall ids k0 mask, Forall (fun id => FIRST_INDEX <= id) ids -> NoDup ids ->
  rollbacks k0 ids = Ok mask -> forall k, (k < length ids)%nat -> nth k mask false = false.
Proof. exact c15_nodup. Qed.

Theorem C15_first_index : FIRST_INDEX = -123.
Proof. reflexivity. Qed.

From Coq Require Import String.
From Peppi Require Import Gen.RollbacksSrc Proofs.RollbacksLayout.
(* ---- Frame::rollbacks / rollbacks_ regenerated from src/frame/immutable/mod.rs (Gen/RollbacksSrc.v): the iteration order per
   variant, the initial values, the size of `seen`, the zero-based id, the loop body as a decision table; the hand model IS the
   interpreter that writes result[idx] / seen[z] by index in the table's order -- for ALL id lists, panics included *)
Theorem C15_rollbacks_from_source : forall k ids, rollbacks k ids = rollbacks_tbl (keep_name k) ids.
Proof. exact rollbacks_from_source. Qed.
Theorem C15_variants_from_source :
  rollbacks_variants = map keep_name [ExceptFirst; ExceptLast] /\ map fst rollbacks_order = rollbacks_variants.
Proof. exact rollbacks_variants_from_source. Qed.

Print Assumptions C15_first.
Print Assumptions C15_last.
Print Assumptions C15_unmarked_first.
Print Assumptions C15_nodup.
Print Assumptions C15_first_index.
Print Assumptions C15_rollbacks_from_source.
Print Assumptions C15_variants_from_source.
