(* C14 -- The Arrow struct array has the per-version schema and converts back losslessly.
   data_type / into_struct_array / from_struct_array of the generated structs are regenerated into tables. *)
From Coq Require Import List NArith Bool String.
From Peppi Require Import Base.Outcome Layout.Syntax Gen.Funs Gen.Tables Layout.Sem Layout.SpecTheory Layout.Spec Layout.Shapes Layout.Rows Layout.Transpose Proofs.C03Proof
  Model.Parse Model.Recorder Model.View Proofs.C14Proof.
Import ListNotations.
Local Open Scope string_scope.

(* closed obligations on the current source *)
Lemma C14_tables :
  forallb arrow_leaves_match events = true /\        (* Arrow leaves (names, nesting, types, gates) = the reader's leaves *)
  forallb arrow_positional all_structs = true /\     (* the three functions agree field by field, position by position *)
  forallb arrow_prefix_closed all_structs = true.    (* enabled fields form a prefix of the field list for every version *)
Proof. vm_compute. repeat split; reflexivity. Qed.

(* the reader's leaves are the hand spec (C03), so the Arrow schema is the per-version field table *)
Theorem C14_schema_is_spec : forall E, In E events ->
  arrow_leaves_match E = true /\ agrees (hdr_of E) (read_leaves E) (spec_of E) = true.
Proof.
  intros E HE. split.
  - destruct C14_tables as [H _]. rewrite forallb_forall in H. apply H. exact HE.
  - apply agree_E. exact HE.
Qed.

(* positional round trip: when enabling is downward closed along the field list, the k-th exported child is the
   k-th field, and a field that the version does not have is exactly a missing child -- for every version *)
Theorem C14_positional : forall (A : Type) (en : A -> bool) (l : list A) k,
  down_closed en l ->
  nth_error (filter en l) k = match nth_error l k with Some a => if en a then Some a else None | None => None end.
Proof. intros A en l k. apply prefix_positional. Qed.

(* totality and top-level schema of the export (hand model of Frame::into_struct_array, Model/View.v, per-struct parts through
   the regenerated data_type tables): for EVERY version -- no upper bound needed --, EVERY non-empty port configuration and
   EVERY parsed frame history the export succeeds (no empty StructArray, no missing column), with children id, ports,
   start (>= 2.2), end (>= 3.7: the End record has no field before), item (>= 3.0) *)
Theorem C14_export_total : forall v ports fs,
  Forall (fun f => wf_frame v (layout_of v) (slots_of ports) f = true) fs -> ports <> [] ->
  exists n kids,
    arrow_frame v (frames_of v ports fs) = Ok (AStruct "frame" n None kids) /\ n = List.length fs /\
    map child_name kids =
      (["id"; "ports"] ++ (if vgte v 2 2 then ["start"] else []) ++ (if vgte v 3 0 && vgte v 3 7 then ["end"] else [])
       ++ (if vgte v 3 0 then ["item"] else []))%list.
Proof. exact c14_export_total. Qed.
(* the closed checks on the regenerated data_type table this rests on *)
Theorem C14_export_table_checks :
  dt_ok = true /\ forallb first_ungated ["Pre"; "Post"; "Start"; "Item"] = true /\ end_first_gate = true.
Proof. exact (conj dt_ok_true (conj first_ungated_all end_first_gate_true)). Qed.

From Peppi Require Import Gen.ArrowFrame Proofs.ArrowFrameLayout.
(* ---- the hand-written Arrow glue of Frame / PortData / Data (src/frame/immutable/peppi.rs), regenerated (Gen/ArrowFrame.v) ----
   the export of the hand model IS the interpretation of the regenerated data_type / into_struct_array tables (children, their
   order, the version gates around each push, the record each is built from), panics included.  Unconditional: for EVERY version
   and frame set, also the ones the parser never produces (no End columns from 3.0 to before 3.7: self.end is touched only under
   version.gte(3, 7), in the source and in the hand model alike) *)
Theorem C14_frame_export_from_source : forall v fr,
  arrow_frame v fr = arrow_frame_tbl arrow_frame_data_type arrow_frame_into v fr.
Proof. exact arrow_frame_from_source. Qed.
Theorem C14_port_export_from_source : forall v g, arrow_port v g = arrow_port_tbl arrow_port_data_type arrow_port_into v g.
Proof. exact arrow_port_from_source. Qed.
Theorem C14_data_export_from_source : forall v name d,
  arrow_data v name d = arrow_data_tbl arrow_data_data_type arrow_data_into arrow_data_into_validity v name d.
Proof. exact arrow_data_from_source. Qed.
(* the children of every successful export are the data_type names whose gates hold at that version, in source order *)
Theorem C14_children_from_source : forall v fr n kids,
  arrow_frame v fr = Ok (AStruct "frame" n None kids) -> map child_name kids = active_names v.
Proof. exact arrow_frame_children_from_source. Qed.
(* the import (from_struct_array) takes every child back from the position the export put it at, for EVERY version: the asserted
   (name, index) pairs are the written ones; start / end / item are read at the written positions, an unwritten child lies beyond
   the end of the values *)
Theorem C14_import_positions_from_source : forall v,
  asserted_fields v = written_fields v /\
  from_lookup arrow_frame_from "id" = Some (FfPrimAt 0 I32) /\ position_of (written_fields v) "id" = Some 0%nat /\
  from_lookup arrow_frame_from "ports" = Some (FfPortsAt 1) /\ position_of (written_fields v) "ports" = Some 1%nat /\
  (exists k, from_lookup arrow_frame_from "start" = Some (FfStructGet k "Start") /\
             match position_of (written_fields v) "start" with
             | Some p => p = k
             | None => (List.length (written_fields v) <= k)%nat
             end) /\
  (exists g, from_lookup arrow_frame_from "end" = Some (FfStructAtEndIdx "End" g) /\
             match position_of (written_fields v) "end" with
             | Some p => end_idx v = Some p
             | None => end_idx v = None /\ vgte v (fst g) (snd g) = gates_hold v [(2, 2); (3, 0)]%N
             end) /\
  from_lookup arrow_frame_from "item_offset" = Some FfListOffsetsAtItemIdx /\
  from_lookup arrow_frame_from "item" = Some (FfListValuesAtItemIdx "Item") /\
  match position_of (written_fields v) "item" with
  | Some p => item_idx v = p
  | None => (List.length (written_fields v) <= item_idx v)%nat
  end.
Proof. exact arrow_frame_from_agrees_with_data_type. Qed.
(* Data and PortData: the reader takes the children back by the writer's positions and names; port children are named by
   Display for Port, whose inverse is Port::parse *)
Theorem C14_data_port_tables_agree :
  (map fst arrow_data_data_type = map fst arrow_data_into /\
   map (fun x => (fst (fst x), snd x)) arrow_data_from = arrow_data_into /\
   map (fun x => snd (fst x)) arrow_data_from = seq 0 (List.length arrow_data_into) /\
   arrow_data_into_validity = arrow_data_from_validity) /\
  (map (fun x => (fst (fst x), snd x)) arrow_port_data_type = arrow_port_into /\
   arrow_port_from_asserts = arrow_port_from /\
   map (fun x => (fst (fst x), snd x)) arrow_port_from = arrow_port_into /\
   map (fun x => snd (fst x)) arrow_port_from = seq 0 (List.length arrow_port_into)).
Proof. exact (conj arrow_data_tables_agree arrow_port_tables_agree). Qed.
Theorem C14_port_names_from_source :
  forall p, In p Port_codes -> display_of port_display p = Some (port_name p) /\ parse_of port_parse (port_name p) = Some p.
Proof. exact port_names_from_source. Qed.

Print Assumptions C14_tables.
Print Assumptions C14_export_total.
Print Assumptions C14_export_table_checks.
Print Assumptions C14_schema_is_spec.
Print Assumptions C14_positional.
Print Assumptions C14_frame_export_from_source.
Print Assumptions C14_port_export_from_source.
Print Assumptions C14_data_export_from_source.
Print Assumptions C14_children_from_source.
Print Assumptions C14_import_positions_from_source.
Print Assumptions C14_data_port_tables_agree.
Print Assumptions C14_port_names_from_source.
