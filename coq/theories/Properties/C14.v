(* C14 -- The Arrow struct array has the per-version schema and converts back losslessly.
   data_type / into_struct_array / from_struct_array of the generated structs are regenerated into tables. *)
From Coq Require Import List NArith Bool String.
From Peppi Require Import Base.Outcome Layout.Syntax Gen.Funs Gen.Tables Layout.Sem Layout.SpecTheory Layout.Spec Layout.Shapes Layout.Rows Layout.Transpose Proofs.C03Proof
  Model.Parse Model.Recorder Model.View Proofs.C14Proof.
Import ListNotations.
Local Open Scope string_scope.

(* closed obligations on the current source *)
Lemma C14_tables :
  forallb arrow_leaves_match events = true /\        (* Arrow leaves (names, nesting, types, gates) = the reader's leaves *)
  forallb arrow_positional all_structs = true /\     (* the three functions agree field by field, position by position *)
  forallb arrow_prefix_closed all_structs = true.    (* enabled fields form a prefix of the field list for every version *)
Proof. vm_compute. repeat split; reflexivity. Qed.

(* the reader's leaves are the hand spec (C03), so the Arrow schema is the per-version field table *)
Theorem C14_schema_is_spec : forall E, In E events ->
  arrow_leaves_match E = true /\ agrees (hdr_of E) (read_leaves E) (spec_of E) = true.
Proof.
  intros E HE. split.
  - destruct C14_tables as [H _]. rewrite forallb_forall in H. apply H. exact HE.
  - apply agree_E. exact HE.
Qed.

(* positional round trip: when enabling is downward closed along the field list, the k-th exported child is the
   k-th field, and a field that the version does not have is exactly a missing child -- for every version *)
Theorem C14_positional : forall (A : Type) (en : A -> bool) (l : list A) k,
  down_closed en l ->
  nth_error (filter en l) k = match nth_error l k with Some a => if en a then Some a else None | None => None end.
Proof. intros A en l k. apply prefix_positional. Qed.

(* totality and top-level schema of the export (hand model of Frame::into_struct_array, Model/View.v, per-struct parts through
   the regenerated data_type tables): for EVERY version -- no upper bound needed --, EVERY non-empty port configuration and
   EVERY parsed frame history the export succeeds (no empty StructArray, no missing column), with children id, ports,
   start (>= 2.2), end (>= 3.7: the End record has no field before), item (>= 3.0) *)
Theorem C14_export_total : forall v ports fs,
  Forall (fun f => wf_frame v (layout_of v) (slots_of ports) f = true) fs -> ports <> [] ->
  exists n kids,
    arrow_frame v (frames_of v ports fs) = Ok (AStruct "frame" n None kids) /\ n = List.length fs /\
    map child_name kids =
      (["id"; "ports"] ++ (if vgte v 2 2 then ["start"] else []) ++ (if vgte v 3 0 && vgte v 3 7 then ["end"] else [])
       ++ (if vgte v 3 0 then ["item"] else []))%list.
Proof. exact c14_export_total. Qed.
(* the closed checks on the regenerated data_type table this rests on *)
Theorem C14_export_table_checks :
  dt_ok = true /\ forallb first_ungated ["Pre"; "Post"; "Start"; "Item"] = true /\ end_first_gate = true.
Proof. exact (conj dt_ok_true (conj first_ungated_all end_first_gate_true)). Qed.

Print Assumptions C14_tables.
Print Assumptions C14_export_total.
Print Assumptions C14_export_table_checks.
Print Assumptions C14_schema_is_spec.
Print Assumptions C14_positional.
