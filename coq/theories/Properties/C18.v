(* C18 -- .slpp is a tar starting with peppi.json whose entries agree with each other.
   Entry-level model (Model/Slpp.v) + the tar block layout tar::Builder writes (tar_bytes). *)
From Coq Require Import List NArith Bool.
From Coq.Strings Require Import Byte.
From Peppi Require Import Base.Bytes Base.Outcome Gen.Funs Model.Ubjson Model.Start Model.Parse Model.Reader Model.Slpp Proofs.SlppProof.
Import ListNotations.

(* entry order and presence conditions *)
Theorem C18_entry_order : forall enc_peppi enc_meta enc_start enc_end enc_frames c g es,
  slpp_write enc_peppi enc_meta enc_start enc_end enc_frames c g = Ok es ->
  map fst es =
  ([name_of KPeppi; name_of KMeta; name_of KStartJson; name_of KStartRaw]
   ++ (match g_end (sg_game g) with Some _ => [name_of KEndJson; name_of KEndRaw] | None => [] end)
   ++ (match g_gecko (sg_game g) with Some _ => [name_of KGecko] | None => [] end)
   ++ [name_of KFrames])%list.
Proof. exact slpp_entry_order. Qed.

(* raw entries are the retained blocks; JSON entries are the renderings of the same records *)
Theorem C18_entries_consistent : forall enc_peppi enc_meta enc_start enc_end enc_frames c g es,
  slpp_write enc_peppi enc_meta enc_start enc_end enc_frames c g = Ok es ->
  In (name_of KStartRaw, st_bytes (g_start (sg_game g))) es /\
  In (name_of KStartJson, enc_start (g_start (sg_game g))) es /\
  (forall e, g_end (sg_game g) = Some e -> In (name_of KEndRaw, en_bytes e) es /\ In (name_of KEndJson, enc_end e) es).
Proof. exact slpp_entries_consistent. Qed.

(* the documented signature is at offset 0 of the tar bytes *)
Theorem C18_signature_at_offset_0 : forall content rest,
  firstn 10 (tar_bytes ((name_of KPeppi, content) :: rest)) = map n2b PEPPI_FILE_SIGNATURE.
Proof.
  intros. rewrite <- signature_is_peppi_json. apply tar_starts_with_first_name. reflexivity.
Qed.

(* unknown entries are ignored wherever they stand *)
Theorem C18_unknown_ignored : forall dec_peppi dec_meta dec_frames skip pre p c post a,
  kind_of p = KOther ->
  read_entries dec_peppi dec_meta dec_frames skip (pre ++ (p, c) :: post) a =
  read_entries dec_peppi dec_meta dec_frames skip (pre ++ post) a.
Proof. exact slpp_unknown_ignored. Qed.

(* archives below the minimum format version are rejected *)
Theorem C18_old_version_rejected : forall dec_peppi dec_meta dec_frames skip p c rest pv h q,
  kind_of p = KPeppi -> dec_peppi c = Some (pv, h, q) -> assert_current_version_ok pv = false ->
  slpp_read dec_peppi dec_meta dec_frames skip ((p, c) :: rest) = Err EInvalid.
Proof. exact slpp_old_version_rejected. Qed.

Theorem C18_min_version : PEPPI_MIN_VERSION = (2, 0, 0)%N /\ PEPPI_CURRENT_VERSION = (2, 0, 0)%N.
Proof. split; reflexivity. Qed.

Print Assumptions C18_entry_order.
Print Assumptions C18_entries_consistent.
Print Assumptions C18_signature_at_offset_0.
Print Assumptions C18_unknown_ignored.
Print Assumptions C18_old_version_rejected.
Print Assumptions C18_min_version.
