(* C18 -- .slpp is a tar starting with peppi.json whose entries agree with each other.
   Entry-level model (Model/Slpp.v) + the tar block layout tar::Builder writes (tar_bytes). *)
From Coq Require Import List NArith Bool.
From Coq.Strings Require Import Byte.
From Peppi Require Import Base.Bytes Base.Outcome Gen.Funs Gen.SlppEntries Model.Ubjson Model.Start Model.Json Model.Parse Model.Reader Model.Slpp
  Proofs.SlppProof Proofs.SlppLayout.
Import ListNotations.

(* entry order and presence conditions *)
Theorem C18_entry_order : forall enc_peppi enc_meta enc_start enc_end enc_frames c g es,
  slpp_write enc_peppi enc_meta enc_start enc_end enc_frames c g = Ok es ->
  map fst es =
  ([name_of KPeppi; name_of KMeta; name_of KStartJson; name_of KStartRaw]
   ++ (match g_end (sg_game g) with Some _ => [name_of KEndJson; name_of KEndRaw] | None => [] end)
   ++ (match g_gecko (sg_game g) with Some _ => [name_of KGecko] | None => [] end)
   ++ [name_of KFrames])%list.
Proof. exact slpp_entry_order. Qed.

(* raw entries are the retained blocks; JSON entries are the renderings of the same records *)
Theorem C18_entries_consistent : forall enc_peppi enc_meta enc_start enc_end enc_frames c g es,
  slpp_write enc_peppi enc_meta enc_start enc_end enc_frames c g = Ok es ->
  In (name_of KStartRaw, st_bytes (g_start (sg_game g))) es /\
  In (name_of KStartJson, enc_start (g_start (sg_game g))) es /\
  (forall e, g_end (sg_game g) = Some e -> In (name_of KEndRaw, en_bytes e) es /\ In (name_of KEndJson, enc_end e) es).
Proof. exact slpp_entries_consistent. Qed.

(* the documented signature is at offset 0 of the tar bytes *)
Theorem C18_signature_at_offset_0 : forall content rest,
  firstn 10 (tar_bytes ((name_of KPeppi, content) :: rest)) = map n2b PEPPI_FILE_SIGNATURE.
Proof.
  intros. rewrite <- signature_is_peppi_json. apply tar_starts_with_first_name. reflexivity.
Qed.

(* unknown entries are ignored wherever they stand *)
Theorem C18_unknown_ignored : forall dec_peppi dec_meta dec_frames skip pre p c post a,
  kind_of p = KOther ->
  read_entries dec_peppi dec_meta dec_frames skip (pre ++ (p, c) :: post) a =
  read_entries dec_peppi dec_meta dec_frames skip (pre ++ post) a.
Proof. exact slpp_unknown_ignored. Qed.

(* archives below the minimum format version are rejected *)
Theorem C18_old_version_rejected : forall dec_peppi dec_meta dec_frames skip p c rest pv h q,
  kind_of p = KPeppi -> dec_peppi c = Some (pv, h, q) -> assert_current_version_ok pv = false ->
  slpp_read dec_peppi dec_meta dec_frames skip ((p, c) :: rest) = Err EInvalid.
Proof. exact slpp_old_version_rejected. Qed.

Theorem C18_min_version : PEPPI_MIN_VERSION = (2, 0, 0)%N /\ PEPPI_CURRENT_VERSION = (2, 0, 0)%N.
Proof. split; reflexivity. Qed.

(* ---- the same, THROUGH THE TABLES REGENERATED FROM THE SOURCE on this run (Gen/SlppEntries.v: the sequence of
   tar_append calls of src/io/peppi/ser.rs write with their `if let` guards, and the file-name match arms of
   src/io/peppi/de.rs read with the arm that breaks out of the loop) ---- *)
Theorem C18_written_entries_from_source : forall enc_peppi enc_meta enc_start enc_end enc_frames c g es,
  slpp_write enc_peppi enc_meta enc_start enc_end enc_frames c g = Ok es ->
  map fst es = written_names (is_some (g_end (sg_game g))) (is_some (g_gecko (sg_game g))).
Proof. exact slpp_write_entries_from_source. Qed.
(* the reader model dispatches on exactly the names of the source's match, each to the variable the arm assigns *)
Theorem C18_read_names_from_source : forall p, kind_of p = kind_of_tbl slpp_read_targets p.
Proof. exact slpp_read_names_from_source. Qed.
(* the entry the reader stops at is the last one the writer emits *)
Theorem C18_last_entry_from_source : forall enc_peppi enc_meta enc_start enc_end enc_frames c g es,
  slpp_write enc_peppi enc_meta enc_start enc_end enc_frames c g = Ok es ->
  map (fun x => sb (fst x)) (filter snd slpp_read_names) = [last (map fst es) []].
Proof. exact slpp_last_entry_from_source. Qed.

From Coq Require Import String.
From Peppi Require Import Gen.SlppHelpers Proofs.SlppHelpersLayout.
(* ---- the helper readers of the .slpp reader and the blob writer, regenerated (Gen/SlppHelpers.v) ----
   gecko_codes.raw: the same 4-byte little-endian prefix on both sides, the reader's arm with its short-entry error *)
Theorem C18_gecko_blob_from_source :
  (forall dp dm df skip p c r a, kind_of p = KGecko ->
    read_entries dp dm df skip ((p, c) :: r) a =
      if Nat.ltb (List.length c) slpp_gecko_size_len then Err EIo
      else read_entries dp dm df skip r
             (upd a (ra_start a) (ra_end a) (ra_meta a)
                  (Some {| gk_bytes := skipn slpp_gecko_size_len c;
                           gk_actual := dec_size slpp_gecko_read_little_endian (firstn slpp_gecko_size_len c) |})
                  (ra_frames a) (ra_peppi a))) /\
  (forall enc_peppi enc_meta enc_start enc_end enc_frames c g es k,
    slpp_write enc_peppi enc_meta enc_start enc_end enc_frames c g = Ok es -> g_gecko (sg_game g) = Some k ->
    In (name_of KGecko, enc_size slpp_gecko_write_little_endian (gk_actual k) ++ gk_bytes k)%list es) /\
  (forall n, List.length (enc_size slpp_gecko_write_little_endian n) = slpp_gecko_size_len /\
             dec_size slpp_gecko_read_little_endian (enc_size slpp_gecko_write_little_endian n) = (n mod 4294967296)%N).
Proof. exact (conj gecko_arm_from_source (conj gecko_write_from_source gecko_size_agrees)). Qed.
(* metadata.json: null is "no metadata", an object is the map, anything else is refused; each helper is called from the arm
   of the entry the model reads it from; peppi.json: decode, check the format version, store -- and the version check refuses
   exactly the versions below the regenerated minimum *)
Theorem C18_metadata_arms_from_source :
  meta_of_shape slpp_meta_arms MsNull = Some None /\
  (forall m, meta_of_shape slpp_meta_arms (MsObject m) = Some (Some m)) /\
  (forall v, v <> "Null"%string -> v <> "Object"%string -> meta_of_shape slpp_meta_arms (MsOther v) = None).
Proof. exact meta_arms_from_source. Qed.
Theorem C18_helper_calls_from_source :
  map (fun x => (kind_of (sb (fst (fst (fst x)))), snd (fst x), snd x)) slpp_read_calls =
    [(KStartRaw, "read_peppi_start"%string, true); (KEndRaw, "read_peppi_end"%string, true);
     (KMeta, "read_peppi_metadata"%string, false); (KGecko, "read_peppi_gecko_codes"%string, true)].
Proof. exact slpp_read_calls_from_source. Qed.
Theorem C18_peppi_arm_from_source : forall dp dm df skip p c r a, kind_of p = KPeppi ->
  kind_of (sb slpp_peppi_entry) = KPeppi /\
  read_entries dp dm df skip ((p, c) :: r) a = (a' <- run_peppi slpp_peppi_arm dp c None a ;; read_entries dp dm df skip r a').
Proof. exact peppi_arm_from_source. Qed.
Theorem C18_version_check_from_source : forall v, assert_current_version_ok v = version_le PEPPI_MIN_VERSION v.
Proof. exact assert_current_version_from_source. Qed.

From Peppi Require Import Model.Api Gen.TarSrc Proofs.TarLayout Gen.JsonShape Proofs.JsonShapeLayout.
(* ---- tar_append and the final flush, regenerated (Gen/TarSrc.v): GNU header, size = buffer length, path, mode 0o644, checksum last,
   then the data; the tar-level model IS the table-driven form *)
Theorem C18_tar_from_source :
  (forall e, tar_entry e = tar_entry_tbl e) /\
  (forall es, tar_bytes es = flat_map tar_entry_tbl es ++ fin_run tar_finish_steps false)%list.
Proof. exact (conj tar_entry_from_source tar_bytes_from_source). Qed.
(* the JSON entries are renderings of the regenerated struct shapes (keys in declaration order, Options omitted when None) *)
Theorem C18_json_entries_from_source :
  (forall s, api_cjson_start s = cjson (render json_fuel (JkStruct "Start") (gv_start s))) /\
  (forall e, api_cjson_end e = cjson (render json_fuel (JkStruct "End") (gv_end e))).
Proof. exact api_cjson_from_source. Qed.

From Peppi Require Import Gen.SlppWriteSrc Proofs.SlppWriteLayout.
(* ---- the content expression of every tar_append call, regenerated (Gen/SlppWriteSrc.v); the byte-level peppi.json through the
   regenerated struct Peppi / Version / Quirks declarations ---- *)
Theorem C18_slpp_writer_from_source : forall enc_peppi enc_meta enc_start enc_end enc_frames o g,
  slpp_write enc_peppi enc_meta enc_start enc_end enc_frames (comp_of_opts o) g =
  slpp_write_tbl enc_peppi enc_meta enc_start enc_end enc_frames o g.
Proof. exact slpp_write_from_source. Qed.
Theorem C18_peppi_json_from_source : forall v hash quirks, peppi_json v hash quirks = peppi_json_tbl v hash quirks.
Proof. exact peppi_json_from_source. Qed.

Print Assumptions C18_entry_order.
Print Assumptions C18_entries_consistent.
Print Assumptions C18_signature_at_offset_0.
Print Assumptions C18_unknown_ignored.
Print Assumptions C18_old_version_rejected.
Print Assumptions C18_min_version.
Print Assumptions C18_written_entries_from_source.
Print Assumptions C18_read_names_from_source.
Print Assumptions C18_last_entry_from_source.
Print Assumptions C18_gecko_blob_from_source.
Print Assumptions C18_metadata_arms_from_source.
Print Assumptions C18_helper_calls_from_source.
Print Assumptions C18_peppi_arm_from_source.
Print Assumptions C18_version_check_from_source.
Print Assumptions C18_tar_from_source.
Print Assumptions C18_json_entries_from_source.
Print Assumptions C18_slpp_writer_from_source.
Print Assumptions C18_peppi_json_from_source.
