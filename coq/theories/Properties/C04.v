(* C04 -- Frame rows, character presence and item grouping mirror the event history.
   Reader model Model/Reader.v + Model/Parse.v; replay model Model/Recorder.v (frame history = list of frame
   occurrences, each with per-character optional payloads and its items). *)
From Coq Require Import List Arith NArith ZArith Bool String.
From Coq.Strings Require Import Byte.
From Peppi Require Import Base.Bytes Base.Outcome Gen.Funs Model.Ubjson Model.Start Model.Parse Model.Reader Model.Writer Model.Recorder
  Gen.ParseEvent Proofs.FrameStep Proofs.TableFacts Proofs.ReadProof Proofs.Incremental Proofs.C04Proof Proofs.ParseLayout Proofs.Examples.
Import ListNotations.

(* for EVERY well-formed replay, in each framing regime, the parsed frame data is frames_of (version, ports, history) ... *)
Theorem C04_parsed_frames : forall r st h, wf_replay r = true -> game_start (r_start r) = ROk st ->
  exists g, slp_read {| o_skip := false; o_hash := h |} (emit r) = Ok (g, []) /\
            g_frames g = frames_of (r_ver r) (port_occupancy st) (r_frames r).
Proof. exact c04_parsed. Qed.

(* ... and these are its columns, written out directly from the history fs (no parser, no fold): *)
(* one frame row per occurrence, in file order -- a rolled-back id appears once per occurrence *)
Theorem C04_ids : forall v ports fs, f_ids (frames_of v ports fs) = map af_id fs.
Proof. exact c04_ids. Qed.
(* the character slots are the occupied ports' leaders and Ice Climbers followers, in port order *)
Theorem C04_slots : forall v ports fs,
  Forall (fun f => wf_frame v (layout_of v) (slots_of ports) f = true) fs ->
  tags (f_chars (frames_of v ports fs)) = slots_of ports.
Proof. exact c04_slots. Qed.
(* slot k's pre / post / validity columns are column k of the history: one entry per row, the occurrence's payloads
   where the character had events, null rows and a false bit where it had none *)
Theorem C04_slot_columns : forall v ports fs k c, nth_error (f_chars (frames_of v ports fs)) k = Some c ->
  c_pre (sl_data c) = col_pre (layout_of v) k fs /\ c_post (sl_data c) = col_post (layout_of v) k fs /\
  valid_bits (sl_data c) = col_valid k fs.
Proof. exact c04_slot_columns. Qed.
(* present exactly when the character had events in that occurrence; its values sit in that row *)
Theorem C04_presence : forall v ports fs k c i f,
  nth_error (f_chars (frames_of v ports fs)) k = Some c -> nth_error fs i = Some f ->
  nth_error (valid_bits (sl_data c)) i = Some (is_some (slot_at k f)) /\
  (forall p q, slot_at k f = Some (p, q) ->
     nth_error (c_pre (sl_data c)) i = Some p /\ nth_error (c_post (sl_data c)) i = Some q).
Proof. exact c04_presence. Qed.
(* start / end columns: one entry per row, when the version has them *)
Theorem C04_start : forall v ports fs, f_start (frames_of v ports fs) = if vgte v 2 2 then Some (map af_start fs) else None.
Proof. exact c04_start. Qed.
Theorem C04_end : forall v ports fs, f_end (frames_of v ports fs) = if vgte v 3 0 then Some (map af_end fs) else None.
Proof. exact c04_end. Qed.
(* the row's items are exactly the item events of that occurrence, in order: rows [off_i, off_i+1) of the flat column *)
Theorem C04_row_items : forall v ports fs, vgte v 3 0 = true -> forall i f, nth_error fs i = Some f ->
  exists a b items,
    f_item_off (frames_of v ports fs) = Some (0%Z :: offsets_from 0 fs) /\
    nth_error (0%Z :: offsets_from 0 fs) i = Some (Z.of_nat a) /\
    nth_error (0%Z :: offsets_from 0 fs) (S i) = Some (Z.of_nat b) /\
    f_item (frames_of v ports fs) = Some items /\
    firstn (b - a) (skipn a items) = af_items f.
Proof. exact c04_row_items. Qed.
(* every column has exactly one entry per frame row *)
Theorem C04_lengths : forall v ports fs k c, nth_error (f_chars (frames_of v ports fs)) k = Some c ->
  List.length (c_pre (sl_data c)) = List.length fs /\ List.length (c_post (sl_data c)) = List.length fs /\
  List.length (valid_bits (sl_data c)) = List.length fs.
Proof. exact c04_lengths. Qed.
Theorem C04_row_counts : forall v ports fs,
  List.length (f_ids (frames_of v ports fs)) = List.length fs /\
  (forall rows, f_start (frames_of v ports fs) = Some rows -> List.length rows = List.length fs) /\
  (forall rows, f_end (frames_of v ports fs) = Some rows -> List.length rows = List.length fs) /\
  (forall offs, f_item_off (frames_of v ports fs) = Some offs -> List.length offs = S (List.length fs)).
Proof. exact c04_row_counts. Qed.

(* the event handler whose frame bookkeeping the theorems above rest on (when a frame opens and closes in each framing
   regime, the id checks, which column each event touches, where validity is pushed) is, arm by arm and step by step in
   source order, the handler regenerated from src/io/slippi/de.rs parse_event on this run (Gen/ParseEvent.v) *)
Theorem C04_event_arms_from_source : forall code buf s, handle_known code buf s = handle_known_src code buf s.
Proof. exact handle_known_from_source. Qed.
Theorem C04_pre_arm_from_source : forall buf s, arm_pre buf s = run_steps (steps_of "FramePre") buf s.
Proof. exact arm_pre_from_source. Qed.
Theorem C04_frame_start_arm_from_source : forall buf s, arm_fstart buf s = run_steps (steps_of "FrameStart") buf s.
Proof. exact arm_fstart_from_source. Qed.
Theorem C04_frame_end_arm_from_source : forall buf s, arm_fend buf s = run_steps (steps_of "FrameEnd") buf s.
Proof. exact arm_fend_from_source. Qed.
Theorem C04_game_end_arm_from_source : forall buf s, arm_end buf s = run_steps (steps_of "GameEnd") buf s.
Proof. exact arm_end_from_source. Qed.

Theorem C04_nonvacuous :
  (wf_replay ex_r37 = true /\ res_is_ok (game_start (r_start ex_r37)) = true /\ finished ex_r37 = true) /\
  (wf_replay ex_r25 = true /\ res_is_ok (game_start (r_start ex_r25)) = true) /\
  (wf_replay ex_r10 = true /\ res_is_ok (game_start (r_start ex_r10)) = true /\ finished ex_r10 = true).
Proof. exact (conj ex_r37_wf (conj ex_r25_wf ex_r10_wf)). Qed.

From Peppi Require Import Gen.PortOccupancySrc Proofs.PortOccupancyLayout.
(* ---- port_occupancy (src/game/mod.rs), regenerated: one entry per player of the Game Start in order, follower iff the character
   is ICE_CLIMBERS *)
Theorem C04_port_occupancy_from_source : forall s, port_occupancy s = port_occupancy_tbl s.
Proof. exact port_occupancy_from_source. Qed.

From Peppi Require Proofs.ReaderTies.
(* the reader model these theorems speak about is the one regenerated from the source on this run: one-shot read, every incremental
   entry point, the event dispatch with the splitter, the Game Start wiring, the metadata reader (Proofs/ReaderTies.v reader_tied) *)
Theorem C04_reader_is_the_source : ReaderTies.reader_tied.
Proof. exact ReaderTies.reader_tied_holds. Qed.

Print Assumptions C04_parsed_frames.
Print Assumptions C04_ids.
Print Assumptions C04_slots.
Print Assumptions C04_slot_columns.
Print Assumptions C04_presence.
Print Assumptions C04_start.
Print Assumptions C04_end.
Print Assumptions C04_row_items.
Print Assumptions C04_lengths.
Print Assumptions C04_row_counts.
Print Assumptions C04_nonvacuous.
Print Assumptions C04_event_arms_from_source.
Print Assumptions C04_pre_arm_from_source.
Print Assumptions C04_frame_start_arm_from_source.
Print Assumptions C04_frame_end_arm_from_source.
Print Assumptions C04_game_end_arm_from_source.
Print Assumptions C04_port_occupancy_from_source.
Print Assumptions C04_reader_is_the_source.
