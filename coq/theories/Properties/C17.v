(* C17 -- Serialising any accepted game gives a self-consistent file and a fixed point.
   Writer model Model/Writer.v, reader model Model/Reader.v, replay model Model/Recorder.v. *)
From Coq Require Import List Arith NArith ZArith Bool String.
From Coq.Strings Require Import Byte.
From Peppi Require Import Base.Bytes Base.Outcome Gen.Funs Model.Ubjson Model.Start Model.Parse Model.Reader Model.Writer Model.Recorder
  Proofs.FrameStep Proofs.TableFacts Proofs.ReadProof Proofs.WriteProof Proofs.Corollaries Proofs.C08Proof Proofs.Irregular Proofs.Permute Proofs.Irregular2 Proofs.IrregularCheck Gen.WriterRaw Proofs.WriterRawLayout.
Import ListNotations.

(* for the game g of EVERY well-formed replay (Game End and metadata present or missing): the written file is
   emit r, whose header declares exactly the length of its raw element; it re-reads, whole, to the same game; and
   writing that game again reproduces the file *)
Theorem C17_fixed_point : forall r st h,
  wf_replay r = true -> game_start (r_start r) = ROk st ->
  let g := game_of {| o_skip := false; o_hash := h |} r st (end_of r) in
  slp_write g = Ok (emit r) /\
  parse_header (emit r) = Ok (nn (List.length (raw_of r)), raw_of r ++ emit_meta (r_meta r) ++ [x7d]) /\
  slp_read {| o_skip := false; o_hash := h |} (emit r) = Ok (g, []).
Proof. exact c17_canonical. Qed.

(* tolerated irregularity: an event with a code peppi does not know is consumed whole and changes nothing but the
   consumed-byte count, in any state -- so the game accepted from a stream with such events is the game of the
   stream without them, to which the theorem above applies *)
Theorem C17_unknown_events_dropped : forall s code size payload rest,
  existsb (N.eqb code) Event_codes = false -> (code < 256)%N ->
  lookup_size (ps_sizes s) code = Some size -> List.length payload = N.to_nat size ->
  parse_event s (n2b code :: payload ++ rest) = Ok (code, add_bytes_read s (size + 1)%N, rest).
Proof. exact c08_unknown_event_skipped. Qed.

(* tolerated irregularities, for EVERY well-formed replay r and EVERY irregular rendering x of it (Proofs/Irregular.v
   wf_irreg: events with codes peppi does not know interleaved anywhere between Game Start and Game End -- also between
   splitter blocks and inside frames --, with their payload-table entries; junk bytes after the Game End inside the raw
   element that do not look like a second Game End): the reader accepts it, whole, as exactly the game of r ... *)
Theorem C17_irregular_read : forall r st x h,
  wf_replay r = true -> game_start (r_start r) = ROk st -> wf_irreg r st x ->
  slp_read {| o_skip := false; o_hash := h |} (emit_irr r x)
  = Ok (with_hashed (game_of {| o_skip := false; o_hash := h |} r st (end_of r))
                    (if h then Some (List.length (emit_irr r x)) else None), []).
Proof. exact read_irregular. Qed.

(* ... and so the written file is the canonical stream: unknown and trailing content dropped, declared raw length =
   actual length, it re-reads to the same start, end, metadata, gecko codes, frames and quirks, and re-writing it
   reproduces it byte for byte *)
Theorem C17_irregular_fixed_point : forall r st x h,
  wf_replay r = true -> game_start (r_start r) = ROk st -> wf_irreg r st x ->
  exists g,
    slp_read {| o_skip := false; o_hash := h |} (emit_irr r x) = Ok (g, []) /\
    slp_write g = Ok (emit r) /\
    parse_header (emit r) = Ok (nn (List.length (raw_of r)), raw_of r ++ emit_meta (r_meta r) ++ [x7d]) /\
    exists g', slp_read {| o_skip := false; o_hash := h |} (emit r) = Ok (g', []) /\
               g_start g' = g_start g /\ g_end g' = g_end g /\ g_meta g' = g_meta g /\ g_gecko g' = g_gecko g /\
               g_frames g' = g_frames g /\ g_quirk g' = g_quirk g /\
               slp_write g' = Ok (emit r).
Proof. exact c17_irregular. Qed.

(* ... including non-canonical event order inside a frame (wf_irreg2: the known events are the canonical sequence up
   to exchanges of adjacent independent frame-interior events -- an Item with a Pre/Post, Pre/Post events of different
   characters; a character's Pre stays before its Post, items keep their order; before 2.2, where the first Pre opens
   the frame, only the exchanges that are sound there) *)
Theorem C17_reordered_read : forall r st x h,
  wf_replay r = true -> game_start (r_start r) = ROk st -> wf_irreg2 r st x ->
  slp_read {| o_skip := false; o_hash := h |} (emit_irr r x)
  = Ok (with_hashed (game_of {| o_skip := false; o_hash := h |} r st (end_of r))
                    (if h then Some (List.length (emit_irr r x)) else None), []).
Proof. exact read_irregular2. Qed.

Theorem C17_reordered_fixed_point : forall r st x h,
  wf_replay r = true -> game_start (r_start r) = ROk st -> wf_irreg2 r st x ->
  exists g, slp_read {| o_skip := false; o_hash := h |} (emit_irr r x) = Ok (g, []) /\ slp_write g = Ok (emit r) /\
    parse_header (emit r) = Ok (nn (List.length (raw_of r)), raw_of r ++ emit_meta (r_meta r) ++ [x7d]) /\
    exists g', slp_read {| o_skip := false; o_hash := h |} (emit r) = Ok (g', []) /\
       g_start g' = g_start g /\ g_end g' = g_end g /\ g_meta g' = g_meta g /\ g_gecko g' = g_gecko g /\
       g_frames g' = g_frames g /\ g_quirk g' = g_quirk g /\ slp_write g' = Ok (emit r).
Proof. exact c17_irregular2. Qed.

(* the exchanges really are wider than the identity: an Item may be moved behind the following Post (>= 2.2) *)
Theorem C17_reordered_nonvacuous : forall r st l1 a b l2,
  wf_replay r = true -> game_start (r_start r) = ROk st -> vgte (r_ver r) 2 2 = true ->
  canon_events r st = l1 ++ (Event_Item, a) :: (Event_FramePost, b) :: l2 ->
  wf_irreg2 r st {| ig_extra := []; ig_events := l1 ++ (Event_FramePost, b) :: (Event_Item, a) :: l2; ig_junk := [] |}.
Proof. exact wf_irreg2_item_post. Qed.

(* the class is decidable from the inside: wf_irreg2_b is an executable test (extracted and run on every generated
   irregular stream of the correspondence run) and it is sound for the class of the theorems above *)
Theorem C17_checked_class : forall r st x h,
  wf_replay r = true -> game_start (r_start r) = ROk st -> wf_irreg2_b r st x = true ->
  slp_read {| o_skip := false; o_hash := h |} (emit_irr r x)
  = Ok (with_hashed (game_of {| o_skip := false; o_hash := h |} r st (end_of r))
                    (if h then Some (List.length (emit_irr r x)) else None), []).
Proof. exact read_irregular_checked. Qed.

(* "declared raw length computed from counts, not measured": the declared length of the writer model is the sum of the terms
   regenerated from src/io/slippi/ser.rs PayloadSizes::raw_size on this run, over the counts of the regenerated frame_counts *)
Theorem C17_raw_size_from_source : forall g sizes,
  payload_sizes g = Ok sizes -> raw_size sizes g = raw_size_of_terms raw_size_terms sizes g.
Proof. exact raw_size_of_payload_sizes_from_source. Qed.
Theorem C17_frame_counts_from_source : forall fr, frame_counts fr = frame_counts_tbl frame_counts_fields fr.
Proof. exact frame_counts_from_source. Qed.

(* the canonical rendering is an instance (non-vacuity of wf_irreg) *)
Theorem C17_irregular_nonvacuous : forall r st,
  wf_replay r = true -> game_start (r_start r) = ROk st ->
  wf_irreg r st (irreg0 r st) /\ emit_irr r (irreg0 r st) = emit r.
Proof. intros r st Hwf Hst. split; [apply wf_irreg0; assumption|apply emit_irr0; assumption]. Qed.

From Peppi Require Proofs.ReaderTies Proofs.WriterTies.
(* the reader model these theorems speak about is the one regenerated from the source on this run: one-shot read, every incremental
   entry point, the event dispatch with the splitter, the Game Start wiring, the metadata reader (Proofs/ReaderTies.v reader_tied) *)
Theorem C17_reader_is_the_source : ReaderTies.reader_tied.
Proof. exact ReaderTies.reader_tied_holds. Qed.
(* the writer model these theorems speak about is the one regenerated from the source on this run: the statement sequence of write(),
   the payload-size table, the frame counts, the frame writer, the gecko blocks, the metadata writer (Proofs/WriterTies.v writer_tied) *)
Theorem C17_writer_is_the_source : WriterTies.writer_tied.
Proof. exact WriterTies.writer_tied_holds. Qed.

Print Assumptions C17_fixed_point.
Print Assumptions C17_irregular_read.
Print Assumptions C17_irregular_fixed_point.
Print Assumptions C17_irregular_nonvacuous.
Print Assumptions C17_checked_class.
Print Assumptions C17_reordered_read.
Print Assumptions C17_reordered_fixed_point.
Print Assumptions C17_reordered_nonvacuous.
Print Assumptions C17_unknown_events_dropped.
Print Assumptions C17_raw_size_from_source.
Print Assumptions C17_frame_counts_from_source.
Print Assumptions C17_reader_is_the_source.
Print Assumptions C17_writer_is_the_source.
