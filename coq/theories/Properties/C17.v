(* C17 -- Serialising any accepted game gives a self-consistent file and a fixed point.
   Writer model Model/Writer.v, reader model Model/Reader.v, replay model Model/Recorder.v. *)
From Coq Require Import List Arith NArith ZArith Bool String.
From Coq.Strings Require Import Byte.
From Peppi Require Import Base.Bytes Base.Outcome Gen.Funs Model.Ubjson Model.Start Model.Parse Model.Reader Model.Writer Model.Recorder
  Proofs.TableFacts Proofs.ReadProof Proofs.WriteProof Proofs.Corollaries Proofs.C08Proof.
Import ListNotations.

(* for the game g of EVERY well-formed replay (Game End and metadata present or missing): the written file is
   emit r, whose header declares exactly the length of its raw element; it re-reads, whole, to the same game; and
   writing that game again reproduces the file *)
Theorem C17_fixed_point : forall r st h,
  wf_replay r = true -> game_start (r_start r) = ROk st ->
  let g := game_of {| o_skip := false; o_hash := h |} r st (end_of r) in
  slp_write g = Ok (emit r) /\
  parse_header (emit r) = Ok (nn (List.length (raw_of r)), raw_of r ++ emit_meta (r_meta r) ++ [x7d]) /\
  slp_read {| o_skip := false; o_hash := h |} (emit r) = Ok (g, []).
Proof. exact c17_canonical. Qed.

(* tolerated irregularity: an event with a code peppi does not know is consumed whole and changes nothing but the
   consumed-byte count, in any state -- so the game accepted from a stream with such events is the game of the
   stream without them, to which the theorem above applies *)
Theorem C17_unknown_events_dropped : forall s code size payload rest,
  existsb (N.eqb code) Event_codes = false -> (code < 256)%N ->
  lookup_size (ps_sizes s) code = Some size -> List.length payload = N.to_nat size ->
  parse_event s (n2b code :: payload ++ rest) = Ok (code, add_bytes_read s (size + 1)%N, rest).
Proof. exact c08_unknown_event_skipped. Qed.

Print Assumptions C17_fixed_point.
Print Assumptions C17_unknown_events_dropped.
