(* C03 -- Every decoded frame field equals the bytes at its spec offset for the version.
   Property theorems only; proofs live in Proofs/C03Proof.v, Layout/SpecTheory.v. *)
From Coq Require Import List NArith String Bool.
From Coq.Strings Require Import Byte.
From Peppi Require Import Base.Bytes Layout.Syntax Gen.Funs Layout.Sem Layout.SpecTheory Layout.Spec Gen.Tables Layout.Rows Proofs.C03Proof.
Import ListNotations.

(* For every frame-level event E, every version v, every payload that the generated reader (as regenerated
   from src/frame/mutable.rs on this run) decodes, and every field s of the hand-written spec table of E:
   s is exposed at position k under its spec path exactly when v >= s's introducing version, and then its
   value is the big-endian number found at s's spec offset (minus the stripped event header). *)
Theorem C03_fields : forall E v payload vals rest k s,
  In E events ->
  dec (leaves_at v (read_leaves E)) payload = Some (vals, rest) ->
  nth_error (spec_of E) k = Some s ->
  (osince_ok v (ssince s) = true ->
     nth_error (map lpath (leaves_at v (read_leaves E))) k = Some (spath s) /\
     nth_error vals k = Some (be_dec (firstn (width (sprim s)) (skipn (soff s - hdr_of E) payload)))) /\
  (osince_ok v (ssince s) = false -> ~ In (spath s) (map lpath (leaves_at v (read_leaves E)))).
Proof. exact c03_fields. Qed.

(* The reader exposes no field outside the spec table, and in the spec's order. *)
Theorem C03_no_other_fields : forall E, In E events -> map lpath (read_leaves E) = map spath (spec_of E).
Proof. exact c03_no_other_fields. Qed.

(* "at least the version that introduced it" is the lexicographic order on (major, minor). *)
Theorem C03_since_is_lex : forall v M m,
  osince_ok v (Some (M, m)) = true <-> (M < v0 v \/ (M = v0 v /\ m <= v1 v))%N.
Proof. exact c03_since_is_lex. Qed.

Theorem C03_total : forall E v payload,
  (exists r, dec (leaves_at v (read_leaves E)) payload = Some r) <-> (tsize (leaves_at v (read_leaves E)) <= length payload)%nat.
Proof. exact c03_total. Qed.

Print Assumptions C03_fields.
Print Assumptions C03_no_other_fields.
Print Assumptions C03_since_is_lex.
Print Assumptions C03_total.
