(* C03 -- Every decoded frame field equals the bytes at its spec offset for the version.
   Property theorems only; proofs live in Proofs/C03Proof.v, Layout/SpecTheory.v. *)
From Coq Require Import List NArith String Bool.
From Coq.Strings Require Import Byte.
From Peppi Require Import Base.Bytes Base.Outcome Layout.Syntax Gen.Funs Layout.Sem Layout.SpecTheory Layout.Spec Gen.Tables Layout.Rows Proofs.C03Proof
  Model.Start Model.Parse Model.Reader Model.Writer Model.Recorder Model.View Proofs.C04Proof Proofs.C13Proof Proofs.C03Parsed.
Import ListNotations.

(* For every frame-level event E, every version v, every payload that the generated reader (as regenerated
   from src/frame/mutable.rs on this run) decodes, and every field s of the hand-written spec table of E:
   s is exposed at position k under its spec path exactly when v >= s's introducing version, and then its
   value is the big-endian number found at s's spec offset (minus the stripped event header). *)
Theorem C03_fields : forall E v payload vals rest k s,
  In E events ->
  dec (leaves_at v (read_leaves E)) payload = Some (vals, rest) ->
  nth_error (spec_of E) k = Some s ->
  (osince_ok v (ssince s) = true ->
     nth_error (map lpath (leaves_at v (read_leaves E))) k = Some (spath s) /\
     nth_error vals k = Some (be_dec (firstn (width (sprim s)) (skipn (soff s - hdr_of E) payload)))) /\
  (osince_ok v (ssince s) = false -> ~ In (spath s) (map lpath (leaves_at v (read_leaves E)))).
Proof. exact c03_fields. Qed.

(* The reader exposes no field outside the spec table, and in the spec's order. *)
Theorem C03_no_other_fields : forall E, In E events -> map lpath (read_leaves E) = map spath (spec_of E).
Proof. exact c03_no_other_fields. Qed.

(* "at least the version that introduced it" is the lexicographic order on (major, minor). *)
Theorem C03_since_is_lex : forall v M m,
  osince_ok v (Some (M, m)) = true <-> (M < v0 v \/ (M = v0 v /\ m <= v1 v))%N.
Proof. exact c03_since_is_lex. Qed.

Theorem C03_total : forall E v payload,
  (exists r, dec (leaves_at v (read_leaves E)) payload = Some r) <-> (tsize (leaves_at v (read_leaves E)) <= length payload)%nat.
Proof. exact c03_total. Qed.

(* end to end, in the game parsed from EVERY well-formed file: for every frame occurrence i, every present character's
   pre / post record, the frame start / end records and every item, each spec field the version has is the big-endian
   value of the bytes at the field's spec offset in that event of that occurrence (rows never mix between frames,
   characters or items) *)
Theorem C03_parsed_fields : forall r st h i f,
  wf_replay r = true -> game_start (r_start r) = ROk st -> nth_error (r_frames r) i = Some f ->
  exists g w, slp_read {| o_skip := false; o_hash := h |} (emit r) = Ok (g, []) /\ frame_view (r_ver r) (g_frames g) i = Ok w /\
    (forall k p q, slot_at k f = Some (p, q) ->
       exists tag cv, nth_error (slots_of (port_occupancy st)) k = Some tag /\
         nth_error (fv_chars w) k = Some (fst tag, snd tag, cv) /\
         (forall j s, nth_error (spec_of "Pre") j = Some s -> osince_ok (r_ver r) (ssince s) = true ->
            nth_error (cv_pre cv) j = Some (be_dec (firstn (width (sprim s)) (skipn (soff s - hdr_of "Pre") p)))) /\
         (forall j s, nth_error (spec_of "Post") j = Some s -> osince_ok (r_ver r) (ssince s) = true ->
            nth_error (cv_post cv) j = Some (be_dec (firstn (width (sprim s)) (skipn (soff s - hdr_of "Post") q))))) /\
    (vgte (r_ver r) 2 2 = true -> exists sv, fv_start w = Some sv /\
       forall j s, nth_error (spec_of "Start") j = Some s -> osince_ok (r_ver r) (ssince s) = true ->
         nth_error sv j = Some (be_dec (firstn (width (sprim s)) (skipn (soff s - hdr_of "Start") (af_start f))))) /\
    (vgte (r_ver r) 3 0 = true -> exists ev, fv_end w = Some ev /\
       forall j s, nth_error (spec_of "End") j = Some s -> osince_ok (r_ver r) (ssince s) = true ->
         nth_error ev j = Some (be_dec (firstn (width (sprim s)) (skipn (soff s - hdr_of "End") (af_end f))))) /\
    (vgte (r_ver r) 3 0 = true -> exists its, fv_items w = Some its /\ List.length its = List.length (af_items f) /\
       forall m it iv, nth_error (af_items f) m = Some it -> nth_error its m = Some iv ->
       forall j s, nth_error (spec_of "Item") j = Some s -> osince_ok (r_ver r) (ssince s) = true ->
         nth_error iv j = Some (be_dec (firstn (width (sprim s)) (skipn (soff s - hdr_of "Item") it)))).
Proof. intros r st h i f Hwf Hst Hi. exact (c03_parsed_fields r st Hwf Hst h i f Hi). Qed.

From Peppi Require Proofs.ReaderTies.
(* the reader model these theorems speak about is the one regenerated from the source on this run: one-shot read, every incremental
   entry point, the event dispatch with the splitter, the Game Start wiring, the metadata reader (Proofs/ReaderTies.v reader_tied) *)
Theorem C03_reader_is_the_source : ReaderTies.reader_tied.
Proof. exact ReaderTies.reader_tied_holds. Qed.

Print Assumptions C03_fields.
Print Assumptions C03_no_other_fields.
Print Assumptions C03_since_is_lex.
Print Assumptions C03_total.
Print Assumptions C03_parsed_fields.
Print Assumptions C03_reader_is_the_source.
