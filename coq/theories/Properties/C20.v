(* C20 -- Version comparison, parsing and display are mutually consistent and total.
   gte/lt are regenerated from src/io/slippi/mod.rs (Gen/Funs.v); show/parse are the hand model of
   Display/FromStr (Model/VersionText.v), tied to the code by the correspondence run. *)
From Coq Require Import List NArith Bool.
From Peppi Require Import Gen.Funs Model.VersionText Proofs.C20Proof.
Import ListNotations.
Local Open Scope N_scope.

Theorem C20_gte_lex : forall v M m, slippi_Version_gte v M m = true <-> lex2_le (M, m) (v0 v, v1 v).
Proof. exact c20_gte_lex. Qed.

Theorem C20_lt_is_negation : forall v M m, slippi_Version_lt v M m = negb (slippi_Version_gte v M m).
Proof. exact c20_lt_is_negation. Qed.

Theorem C20_gate_monotone : forall a b M m,
  lex2_le (v0 a, v1 a) (v0 b, v1 b) -> slippi_Version_gte a M m = true -> slippi_Version_gte b M m = true.
Proof. exact c20_gate_monotone. Qed.

(* display then parse is the identity on every version whose components are u8 *)
Theorem C20_parse_show : forall v, u8_version v -> parse (show v) = Some v.
Proof. exact parse_show. Qed.

(* exactly the strings "a.b.c" with three dot-free components that u8::from_str accepts are accepted *)
Theorem C20_parse_spec : forall s v,
  parse s = Some v <->
  exists a b c, s = a ++ [DOT] ++ b ++ [DOT] ++ c /\ nodot a /\ nodot b /\ nodot c /\
                parse_u8 a = Some (v0 v) /\ parse_u8 b = Some (v1 v) /\ parse_u8 c = Some (v2 v).
Proof. exact parse_spec. Qed.

Theorem C20_parse_is_u8 : forall s v, parse s = Some v -> u8_version v.
Proof. exact parse_is_u8. Qed.

From Peppi Require Import Gen.VersionTextSrc Proofs.VersionTextLayout.
(* ---- Display / FromStr of both Version types and parse_u8, regenerated (Gen/VersionTextSrc.v): format string pieces and argument
   order, split character, number of next() calls and the accepting pattern, constructor order, the integer type parse_u8 parses to
   (taken from its signature) *)
Theorem C20_show_from_source : forall v, show v = show_tbl slippi_version_display v /\ show v = show_tbl peppi_version_display v.
Proof. exact (fun v => conj (show_from_source_slippi v) (show_from_source_peppi v)). Qed.
Theorem C20_parse_from_source : forall s,
  parse s = parse_tbl slippi_version_split_char slippi_version_next_calls slippi_version_accept slippi_version_ctor s /\
  parse s = parse_tbl peppi_version_split_char peppi_version_next_calls peppi_version_accept peppi_version_ctor s.
Proof. exact (fun s => conj (parse_from_source_slippi s) (parse_from_source_peppi s)). Qed.
Theorem C20_parse_u8_from_source : forall s, parse_u8 s = parse_uint parse_u8_target_bits parse_u8_target_signed s.
Proof. exact parse_u8_from_source. Qed.
Theorem C20_parse_u8_is_u8 : parse_u8_target_bits = 8 /\ parse_u8_target_signed = false.
Proof. split; reflexivity. Qed.

Print Assumptions C20_gte_lex.
Print Assumptions C20_lt_is_negation.
Print Assumptions C20_gate_monotone.
Print Assumptions C20_parse_show.
Print Assumptions C20_parse_spec.
Print Assumptions C20_parse_is_u8.
Print Assumptions C20_show_from_source.
Print Assumptions C20_parse_from_source.
Print Assumptions C20_parse_u8_from_source.
Print Assumptions C20_parse_u8_is_u8.
