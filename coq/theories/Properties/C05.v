(* C05 -- Game Start / Game End fields equal the spec-offset values of the raw blocks.
   Hand model Model/Start.v (game_start, player, game_end) and Model/Json.v (serde renderings).
   Block offsets are the Slippi spec's event offsets minus one (the command byte). *)
From Coq Require Import List Arith NArith Bool String.
From Coq.Strings Require Import Byte.
From Peppi Require Import Base.Bytes Gen.Funs Gen.Layouts Model.Start Model.Json Proofs.C05Proof Proofs.StartLayout.
Import ListNotations.

Theorem C05_bytes_retained : forall blk s, game_start blk = ROk s -> st_bytes s = blk.
Proof. exact c05_bytes_retained. Qed.

Theorem C05_end_bytes_retained : forall blk e, game_end blk = ROk e -> en_bytes e = blk.
Proof. exact c05_end_bytes_retained. Qed.

Theorem C05_start_fields : forall blk s, game_start blk = ROk s ->
  st_version s = (u8_at blk 0, u8_at blk 1, u8_at blk 2) /\
  st_bitfield s = [u8_at blk 4; u8_at blk 5; u8_at blk 6; u8_at blk 7] /\
  st_bombs s = negb (u8_at blk 10 =? 0)%N /\
  st_teams s = negb (u8_at blk 12 =? 0)%N /\
  st_item_freq s = u8_at blk 15 /\ st_sd_score s = u8_at blk 16 /\
  st_stage s = be_at blk 18 2 /\ st_timer s = be_at blk 20 4 /\
  st_item_bitfield s = [u8_at blk 39; u8_at blk 40; u8_at blk 41; u8_at blk 42; u8_at blk 43] /\
  st_damage_ratio s = be_at blk 52 4 /\ st_seed s = be_at blk 316 4.
Proof. exact c05_start_fields. Qed.

Theorem C05_optional_presence : forall blk s, game_start blk = ROk s ->
  (st_pal s = if (416 <? length blk)%nat then Some (negb (u8_at blk 416 =? 0)%N) else None) /\
  (st_frozen s = if (417 <? length blk)%nat then Some (negb (u8_at blk 417 =? 0)%N) else None) /\
  (st_scene s = if (418 <? length blk)%nat then Some (u8_at blk 418, u8_at blk 419) else None) /\
  (st_language s = if (700 <? length blk)%nat then Some (u8_at blk 700) else None) /\
  (st_match s <> None <-> (701 < length blk)%nat) /\
  (forall id g t, st_match s = Some (id, g, t) -> g = be_at blk 752 4) /\
  (forall id g t, st_match s = Some (id, g, t) -> t = be_at blk 756 4).
Proof. exact c05_optional_presence. Qed.

Theorem C05_players : forall blk s, game_start blk = ROk s ->
  map pl_port (st_players s) =
  map N.of_nat (filter (fun i => mem (type_byte blk i) PlayerType_codes) [0; 1; 2; 3]%nat).
Proof. exact c05_players. Qed.

Theorem C05_end : forall blk e, game_end blk = ROk e ->
  en_method e = u8_at blk 0 /\ mem (u8_at blk 0) EndMethod_codes = true /\
  (en_lras e <> None <-> (1 < length blk)%nat) /\
  (forall p, en_lras e = Some p -> p = if (u8_at blk 1 =? 255)%N then None else Some (u8_at blk 1)) /\
  (en_players e <> None <-> (2 < length blk)%nat).
Proof. exact c05_end. Qed.

Theorem C05_json_omits_absent : forall s,
  (In (sb "is_pal") (keys (json_start s)) <-> st_pal s <> None) /\
  (In (sb "is_frozen_ps") (keys (json_start s)) <-> st_frozen s <> None) /\
  (In (sb "scene") (keys (json_start s)) <-> st_scene s <> None) /\
  (In (sb "language") (keys (json_start s)) <-> st_language s <> None) /\
  (In (sb "match") (keys (json_start s)) <-> st_match s <> None).
Proof. exact c05_json_omits_absent. Qed.

Theorem C05_json_end_omits_absent : forall e,
  (In (sb "lras_initiator") (keys (json_end e)) <-> en_lras e <> None) /\
  (In (sb "players") (keys (json_end e)) <-> en_players e <> None).
Proof. exact c05_json_end_omits_absent. Qed.

(* ---- the same statements THROUGH THE READ LAYOUT REGENERATED FROM THE SOURCE (Gen/Layouts.v: tools/rust2coq.py walks
   the sequential reads of game_start / player / game_end in src/io/slippi/de.rs on every run and emits
   (name, offset, width) tables).  If the source moves, swaps or resizes a read, the regenerated tables change and
   these theorems no longer follow from the hand model: the build breaks. ---- *)
Theorem C05_start_fields_from_source : forall blk s, game_start blk = ROk s ->
  st_version s = (field_at start_reads "version.0" blk, field_at start_reads "version.1" blk,
                  field_at start_reads "version.2" blk) /\
  st_bitfield s = bytes_at start_reads "bitfield" blk /\
  st_bombs s = negb (field_at start_reads "is_raining_bombs" blk =? 0)%N /\
  st_teams s = negb (field_at start_reads "is_teams" blk =? 0)%N /\
  st_item_freq s = field_at start_reads "item_spawn_frequency" blk /\
  st_sd_score s = field_at start_reads "self_destruct_score" blk /\
  st_stage s = field_at start_reads "stage" blk /\
  st_timer s = field_at start_reads "timer" blk /\
  st_item_bitfield s = bytes_at start_reads "item_spawn_bitfield" blk /\
  st_damage_ratio s = field_at start_reads "damage_ratio" blk /\
  st_seed s = field_at start_reads "random_seed" blk.
Proof. exact start_fields_from_source. Qed.

(* the hand model's game_start IS the table-driven decoder: fixed size, the nine optional tails with their sizes and
   order, the per-player chunk geometry *)
Theorem C05_start_tails_from_source : forall blk,
  game_start blk = game_start_src blk /\
  tail_names start_tails = ["players_v1_0"; "players_v1_3"; "is_pal"; "is_frozen_ps"; "scene"; "players_v3_9";
                            "players_v3_11"; "language"; "match"]%string.
Proof. exact start_tails_from_source. Qed.

Theorem C05_player_fields_from_source : forall port v0b teams v10 v13 nm cd v311 p,
  player_of port v0b teams v10 v13 nm cd v311 = ROk (Some p) ->
  pl_character p = field_at player_reads "character" v0b /\
  pl_type p = field_at player_reads "type" v0b /\
  pl_stocks p = field_at player_reads "stocks" v0b /\
  pl_costume p = field_at player_reads "costume" v0b /\
  pl_team p = (if teams then Some (field_at player_reads "team_color" v0b, field_at player_reads "team_shade" v0b) else None).
Proof.
  intros port v0b teams v10 v13 nm cd v311 p H.
  destruct (player_fields_from_source port v0b teams v10 v13 nm cd v311 p H) as (H1 & H2 & H3 & H4 & H5 & _).
  repeat split; assumption.
Qed.

Theorem C05_end_fields_from_source : forall blk e, game_end blk = ROk e ->
  en_method e = field_at end_reads "method" blk /\
  (en_lras e <> None <-> (e_off "lras_initiator" < length blk)%nat) /\
  (en_players e <> None <-> (e_off "players" < length blk)%nat).
Proof.
  intros blk e H. destruct (end_fields_from_source blk e H) as (H1 & H2 & _ & H4 & _). repeat split; try assumption; apply H2 || apply H4.
Qed.

From Peppi Require Import Gen.StartWiring Proofs.StartWiringLayout Gen.JsonShape Proofs.JsonShapeLayout.
(* ---- how game_start hands the per-port arrays to player(n, ..) and collects the players, regenerated (Gen/StartWiring.v): for every
   argument the block it comes from and the index used, the port range, the collecting pipeline (an Ok(None) player is dropped, an
   error aborts the read).  The hand game_start IS the table-driven form, for every block *)
Theorem C05_player_wiring_from_source : forall blk, game_start blk = game_start_wired blk.
Proof. exact game_start_wiring_from_source. Qed.
Theorem C05_players_from_source : forall blk t10 t13 t39 t311,
  players_of blk t10 t13 t39 t311 =
  players_of_tbl blk [("players_v1_0"%string, t10); ("players_v1_3"%string, t13); ("players_v3_9"%string, t39); ("players_v3_11"%string, t311)].
Proof. exact players_of_from_source. Qed.
(* ---- the JSON shape of Start / Player / End and their sub-records, regenerated from the struct declarations and serde attributes
   (Gen/JsonShape.v): keys in declaration order, which are omitted when None, enum names; the hand renderings are the table-driven ones *)
Theorem C05_json_from_source :
  (forall s, json_start s = render json_fuel (JkStruct "Start") (gv_start s)) /\
  (forall p, json_player p = render json_fuel (JkStruct "Player") (gv_player p)) /\
  (forall e, json_end e = render json_fuel (JkStruct "End") (gv_end e)).
Proof. exact (conj json_start_from_source (conj json_player_from_source json_end_from_source)). Qed.

Print Assumptions C05_bytes_retained.
Print Assumptions C05_start_fields_from_source.
Print Assumptions C05_start_tails_from_source.
Print Assumptions C05_player_fields_from_source.
Print Assumptions C05_end_fields_from_source.
Print Assumptions C05_end_bytes_retained.
Print Assumptions C05_start_fields.
Print Assumptions C05_optional_presence.
Print Assumptions C05_players.
Print Assumptions C05_end.
Print Assumptions C05_json_omits_absent.
Print Assumptions C05_json_end_omits_absent.
Print Assumptions C05_player_wiring_from_source.
Print Assumptions C05_players_from_source.
Print Assumptions C05_json_from_source.
