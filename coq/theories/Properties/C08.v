(* C08 -- Unknown events and longer payloads from newer versions never disturb known data.
   Reader model Model/Parse.v, Model/Reader.v; row decoder through the regenerated tables. *)
From Coq Require Import List Arith NArith Bool String.
From Coq.Strings Require Import Byte.
From Peppi Require Import Base.Bytes Base.Outcome Base.Stream Layout.Syntax Gen.Funs Layout.Sem Layout.Rows
  Model.Ubjson Model.Start Model.Parse Model.Reader Model.Writer Model.Recorder Gen.Splitter Proofs.C08Proof Proofs.FrameStep Proofs.TableFacts Proofs.Irregular Proofs.SplitterLayout.
Import ListNotations.

(* an event whose code peppi does not know, declared in the payload table, is consumed whole and changes nothing
   but the consumed-byte count -- in any state, hence wherever and however often it occurs *)
Theorem C08_unknown_event_skipped : forall s code size payload rest,
  existsb (N.eqb code) Event_codes = false -> (code < 256)%N ->
  lookup_size (ps_sizes s) code = Some size -> length payload = N.to_nat size ->
  parse_event s (n2b code :: payload ++ rest) = Ok (code, add_bytes_read s (size + 1)%N, rest).
Proof. exact c08_unknown_event_skipped. Qed.

(* extra trailing bytes of a frame-level payload are ignored by the generated readers: for every version, record
   and payload, the decoded values are the same *)
Theorem C08_decoder_ignores_suffix : forall v E payload extra vals rest,
  dec (row_leaves v E) payload = Some (vals, rest) -> dec (row_leaves v E) (payload ++ extra) = Some (vals, rest ++ extra).
Proof. exact c08_decoder_ignores_suffix. Qed.

Theorem C08_read_push_ignores_suffix : forall n payload extra row,
  read_push n payload = Ok row -> read_push n (payload ++ extra) = Ok row.
Proof. exact c08_read_push_ignores_suffix. Qed.

(* a Game Start block longer than the longest layout peppi knows: every exposed field is unchanged *)
Theorem C08_start_ignores_suffix : forall blk extra s,
  (760 <= length blk)%nat -> game_start blk = ROk s ->
  exists s', game_start (blk ++ extra) = ROk s' /\
             st_players s' = st_players s /\ st_version s' = st_version s /\ st_stage s' = st_stage s /\
             st_timer s' = st_timer s /\ st_bitfield s' = st_bitfield s /\ st_item_bitfield s' = st_item_bitfield s /\
             st_bombs s' = st_bombs s /\ st_teams s' = st_teams s /\ st_item_freq s' = st_item_freq s /\
             st_sd_score s' = st_sd_score s /\ st_damage_ratio s' = st_damage_ratio s /\
             st_language s' = st_language s /\ st_match s' = st_match s /\ st_scene s' = st_scene s /\
             st_pal s' = st_pal s /\ st_frozen s' = st_frozen s /\ st_seed s' = st_seed s /\
             st_bytes s' = blk ++ extra.
Proof. exact c08_start_ignores_suffix. Qed.

(* end to end: a whole file with unknown events (declared in the payload table) inserted ANYWHERE between Game Start
   and Game End -- between splitter blocks, between and inside frames -- parses to exactly the game of the file
   without them: no known field, frame row, gecko blob or end record is disturbed *)
Theorem C08_unknown_events_anywhere : forall r st x h,
  wf_replay r = true -> game_start (r_start r) = ROk st -> wf_irreg r st x ->
  slp_read {| o_skip := false; o_hash := h |} (emit_irr r x)
  = Ok (with_hashed (game_of {| o_skip := false; o_hash := h |} r st (end_of r))
                    (if h then Some (List.length (emit_irr r x)) else None), []).
Proof. exact read_irregular. Qed.

(* the event handler's treatment of message-splitter blocks (block length, size field, wrapped-event and final-flag offsets,
   the 512-byte data window) is the one regenerated from src/io/slippi/de.rs handle_splitter_event on this run; an event that
   is not a splitter block never touches the accumulator *)
Theorem C08_splitter_from_source : forall code buf s, handle_event code buf s = handle_event_src code buf s.
Proof. exact handle_event_from_source. Qed.

From Peppi Require Proofs.ReaderTies.
(* the reader model these theorems speak about is the one regenerated from the source on this run: one-shot read, every incremental
   entry point, the event dispatch with the splitter, the Game Start wiring, the metadata reader (Proofs/ReaderTies.v reader_tied) *)
Theorem C08_reader_is_the_source : ReaderTies.reader_tied.
Proof. exact ReaderTies.reader_tied_holds. Qed.

Print Assumptions C08_unknown_event_skipped.
Print Assumptions C08_unknown_events_anywhere.
Print Assumptions C08_decoder_ignores_suffix.
Print Assumptions C08_read_push_ignores_suffix.
Print Assumptions C08_start_ignores_suffix.
Print Assumptions C08_splitter_from_source.
Print Assumptions C08_reader_is_the_source.
