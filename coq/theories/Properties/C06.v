(* C06 -- Reading never panics, aborts or hangs, whatever bytes it is given.
   Reader model Model/Reader.v, Model/Parse.v, Model/Ubjson.v: every unwrap / index / assertion of the Rust reader is
   a [Panic n] branch of the model, every loop is fuel-bounded with [Fuel] on exhaustion.  [safe x] = x is Ok or Err. *)
From Coq Require Import List Arith NArith ZArith Bool String.
From Coq.Strings Require Import Byte.
From Peppi Require Import Base.Bytes Base.Outcome Base.Stream Gen.Funs Model.Ubjson Model.Start Model.Parse Model.Reader
  Model.Frag Proofs.UbjsonProof Proofs.Totality Proofs.FragProof.
Import ListNotations.

(* the one-shot reader: ALL byte strings, ALL option combinations *)
Theorem C06_read_total : forall o bs, safe (slp_read o bs).
Proof. exact slp_read_safe. Qed.

(* ... and it only ever consumes: the unread rest is a suffix of the input *)
Theorem C06_read_consumes : forall o bs g rest, slp_read o bs = Ok (g, rest) -> exists used, bs = used ++ rest.
Proof. exact slp_read_consumes. Qed.

(* the incremental API, call by call; [st_ok] is the state invariant parse_start establishes and parse_event keeps *)
Theorem C06_parse_header_total : forall bs, safe (parse_header bs).
Proof. exact parse_header_safe. Qed.
Theorem C06_parse_start_total : forall bs, safe (parse_start bs).
Proof. exact parse_start_safe. Qed.
Theorem C06_parse_start_inv : forall bs s rest,
  parse_start bs = Ok (s, rest) -> st_ok s /\ lookup_size (ps_sizes s) Event_GameEnd <> None.
Proof. exact parse_start_ok. Qed.
Theorem C06_parse_event_total : forall s bs, st_ok s -> safe (parse_event s bs).
Proof. exact parse_event_safe. Qed.
(* progress: a successful event call consumes at least one byte, so no driver loops without consuming input *)
Theorem C06_parse_event_progress : forall s bs c s' rest, st_ok s -> parse_event s bs = Ok (c, s', rest) ->
  st_ok s' /\ ps_sizes s' = ps_sizes s /\ (List.length rest < List.length bs)%nat.
Proof. exact parse_event_ok. Qed.
Theorem C06_parse_metadata_total : forall s bs, safe (parse_metadata s bs).
Proof. exact parse_metadata_safe. Qed.
(* the main loop cannot run out of fuel: the fuel the reader passes exceeds the input length *)
Theorem C06_event_loop_total : forall fuel raw_len s bs,
  st_ok s -> (List.length bs < fuel)%nat -> safe (event_loop fuel raw_len s bs).
Proof. exact event_loop_safe. Qed.
(* nested metadata: the depth bound (regenerated constant UBJSON_MAX_DEPTH) is checked before descending, the
   reader is total on all inputs *)
Theorem C06_read_map_total : forall bs, match read_map bs with Fuel => False | Panic _ => False | _ => True end.
Proof. exact read_map_total. Qed.

(* read errors injected by the underlying stream at ANY read call (and any fragmentation): a program of exact reads
   returns the flat answer or an I/O error -- never a value built from partial data, never a panic *)
Theorem C06_stream_faults_surface : forall (A : Type) (p : prog A) data sched hashed0,
  let h := mk_hreader data sched hashed0 in
  let '(res, h') := run_frag p h in
  (exists used, data = used ++ fs_data (hr_inner h') /\ hr_hashed h' = option_map (fun l => l ++ used) hashed0) /\
  (res = Err EIo \/
   match run_flat p data with
   | Ok (a, rest) => res = Ok a /\ fs_data (hr_inner h') = rest
   | Err e => res = Err e | Panic x => res = Panic x | Fuel => res = Fuel
   end).
Proof. exact @run_frag_faulty. Qed.

From Peppi Require Proofs.ReaderTies.
(* the reader model these theorems speak about is the one regenerated from the source on this run: one-shot read, every incremental
   entry point, the event dispatch with the splitter, the Game Start wiring, the metadata reader (Proofs/ReaderTies.v reader_tied) *)
Theorem C06_reader_is_the_source : ReaderTies.reader_tied.
Proof. exact ReaderTies.reader_tied_holds. Qed.

Print Assumptions C06_read_total.
Print Assumptions C06_stream_faults_surface.
Print Assumptions C06_read_consumes.
Print Assumptions C06_parse_header_total.
Print Assumptions C06_parse_start_total.
Print Assumptions C06_parse_start_inv.
Print Assumptions C06_parse_event_total.
Print Assumptions C06_parse_event_progress.
Print Assumptions C06_parse_metadata_total.
Print Assumptions C06_event_loop_total.
Print Assumptions C06_read_map_total.
Print Assumptions C06_reader_is_the_source.
