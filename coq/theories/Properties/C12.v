(* C12 -- Incremental parsing equals one-shot parsing for any read fragmentation.
   Reader model Model/Reader.v (parse_header, parse_start, parse_event, parse_metadata; event_loop), state Model/Parse.v,
   fragmenting stream Model/Frag.v. *)
From Coq Require Import List Arith NArith ZArith Bool String.
From Coq.Strings Require Import Byte.
From Peppi Require Import Base.Bytes Base.Outcome Base.Stream Gen.Funs Model.Ubjson Model.Start Model.Parse Model.Reader Model.Frag Model.FragSkip
  Gen.ParseEvent Proofs.ReadProof Proofs.Incremental Proofs.FragProof Proofs.FragSkipProof Proofs.Corollaries Proofs.ParseLayout.
Import ListNotations.

(* after every call, every column only grew by appending: what was completed before is a prefix of what any later
   state -- and the final game -- contains (ids, every character's pre/post/validity, start, end, items, offsets) *)
Theorem C12_event_appends_only : forall s bs c s' rest,
  parse_event s bs = Ok (c, s', rest) -> frames_le (ps_frames s) (ps_frames s').
Proof. exact parse_event_monotone. Qed.
Theorem C12_prefix_of_later_states : forall n m s bs s1 r1 s2 r2,
  drive n s bs = Ok (s1, r1) -> drive (n + m) s bs = Ok (s2, r2) -> frames_le (ps_frames s1) (ps_frames s2).
Proof. exact drive_prefix_of_later. Qed.
(* the frame count never decreases *)
Theorem C12_frame_count_monotone : forall s bs c s' rest,
  parse_event s bs = Ok (c, s', rest) -> (List.length (f_ids (ps_frames s)) <= List.length (f_ids (ps_frames s')))%nat.
Proof. exact parse_event_count. Qed.
(* the consumed-byte count grows by exactly the bytes the call consumed; over any number of calls *)
Theorem C12_bytes_read_accounting : forall n s bs s' rest,
  drive n s bs = Ok (s', rest) ->
  exists used, bs = used ++ rest /\ ps_bytes_read s' = (ps_bytes_read s + N.of_nat (List.length used))%N.
Proof. exact drive_accounting. Qed.

(* the one-shot reader IS header, start, some number of single-event calls, then a fixed epilogue; its game is a
   function of the incrementally reached state (the epilogue closes a frame left open before 3.0 -- see the known
   finding --, notes a doubled Game End, reads the metadata) *)
Theorem C12_oneshot_is_incremental : forall bs g rest h,
  slp_read {| o_skip := false; o_hash := h |} bs = Ok (g, rest) ->
  exists raw_len bs1 s0 bs2 n s1 bs3,
    parse_header bs = Ok (raw_len, bs1) /\ parse_start bs1 = Ok (s0, bs2) /\ drive n s0 bs2 = Ok (s1, bs3) /\
    g_start g = ps_start s1 /\ g_end g = ps_end s1 /\ g_gecko g = ps_gecko s1 /\
    g_frames g = ps_frames (close_if s1).
Proof. exact c12_oneshot_is_driver. Qed.

(* "regardless of how the stream splits the bytes into short reads": each API call, run over ANY fault-free
   fragmentation schedule, returns what the flat model returns and leaves the same rest *)
Theorem C12_header_any_fragmentation : frag_agrees p_header parse_header.
Proof. exact parse_header_frag. Qed.
Theorem C12_start_any_fragmentation : frag_agrees p_start parse_start.
Proof. exact parse_start_frag. Qed.
Theorem C12_event_any_fragmentation : forall s, frag_agrees (p_event s) (parse_event s).
Proof. exact parse_event_frag. Qed.
Theorem C12_metadata_any_fragmentation : forall s data, frag_agrees_on (p_metadata s (List.length data)) (parse_metadata s) data.
Proof. exact parse_metadata_frag. Qed.
Theorem C12_oneshot_any_fragmentation : forall hash data,
  frag_agrees_on (p_slp_read hash (List.length data)) (slp_read {| o_skip := false; o_hash := hash |}) data.
Proof. exact slp_read_frag. Qed.

(* also the skip-frames one-shot read (copy or seek instead of exact reads) *)
Theorem C12_oneshot_skip_any_fragmentation : forall hash data sched hashed0,
  no_fault sched ->
  let '(res, h') := run_frag2 (p_slp_read_skip hash (List.length data)) (mk_hreader data sched hashed0) in
  match slp_read {| o_skip := true; o_hash := hash |} data with
  | Ok (g, rest) =>
      res = Ok g /\ fs_data (hr_inner h') = rest /\
      exists used, data = used ++ rest /\
                   hr_hashed h' = if hash then option_map (fun l => l ++ used) hashed0 else None
  | Err e => res = Err e
  | Panic x => res = Panic x
  | Fuel => res = Fuel
  end.
Proof. exact slp_read_skip_frag. Qed.

(* one incremental call -- code byte, declared size (an error for an undeclared code), exact read of the payload, the handler,
   consumed-byte count += size + 1 -- is the call regenerated from src/io/slippi/de.rs parse_event on this run *)
Theorem C12_event_call_from_source : forall s, parse_event s = parse_event_src s.
Proof. exact parse_event_from_source. Qed.

From Peppi Require Import Gen.ReadPrologue Proofs.ReadPrologueLayout.
(* ---- the first two calls of the incremental API, parse_header and parse_start (= parse_payloads + parse_game_start), regenerated
   from src/io/slippi/de.rs (Gen/ReadPrologue.v): signature, width of the declared length, the test on the table size, the
   step_by loop and the reads of one entry, the required sizes, the bytes_read arithmetic; full equalities, error classes included *)
Theorem C12_header_from_source : forall bs, parse_header bs = parse_header_src bs.
Proof. exact parse_header_from_source. Qed.
Theorem C12_payloads_from_source : forall bs, parse_payloads bs = parse_payloads_src bs.
Proof. exact parse_payloads_from_source. Qed.
Theorem C12_start_from_source : forall bs, parse_start bs = parse_start_src bs.
Proof. exact parse_start_from_source. Qed.

From Peppi Require Proofs.ReaderTies.
(* the reader model these theorems speak about is the one regenerated from the source on this run: one-shot read, every incremental
   entry point, the event dispatch with the splitter, the Game Start wiring, the metadata reader (Proofs/ReaderTies.v reader_tied) *)
Theorem C12_reader_is_the_source : ReaderTies.reader_tied.
Proof. exact ReaderTies.reader_tied_holds. Qed.

Print Assumptions C12_event_appends_only.
Print Assumptions C12_oneshot_skip_any_fragmentation.
Print Assumptions C12_prefix_of_later_states.
Print Assumptions C12_frame_count_monotone.
Print Assumptions C12_bytes_read_accounting.
Print Assumptions C12_oneshot_is_incremental.
Print Assumptions C12_header_any_fragmentation.
Print Assumptions C12_start_any_fragmentation.
Print Assumptions C12_event_any_fragmentation.
Print Assumptions C12_metadata_any_fragmentation.
Print Assumptions C12_oneshot_any_fragmentation.
Print Assumptions C12_event_call_from_source.
Print Assumptions C12_header_from_source.
Print Assumptions C12_payloads_from_source.
Print Assumptions C12_start_from_source.
Print Assumptions C12_reader_is_the_source.
