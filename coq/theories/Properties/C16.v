(* C16 -- Metadata trees are read, written and stored with order and bytes preserved.
   UBJSON model Model/Ubjson.v (src/io/ubjson/{de,ser}.rs), reader tail Model/Reader.v, JSON rendering Model/Json.v. *)
From Coq Require Import List Arith NArith ZArith Bool String.
From Coq.Strings Require Import Byte.
From Peppi Require Import Base.Bytes Base.Outcome Gen.Funs Model.Ubjson Model.Start Model.Json Model.Parse Model.Reader Model.Writer
  Model.Recorder Gen.UbjsonMarkers Proofs.UbjsonProof Proofs.TableFacts Proofs.ReadProof Proofs.Corollaries Proofs.UbjsonLayout.
Import ListNotations.

(* every well-formed tree (strings <= 255 bytes of valid UTF-8, 32-bit integers, nested maps, distinct keys per map) is
   writable ... *)
Theorem C16_write_ok : forall t, wf_tree t -> exists b, write_map t = Ok b.
Proof. exact write_map_ok. Qed.

(* ... and reading the written bytes gives back the same tree, keys in the same order, leaving exactly what follows the
   closing brace; within the nesting bound the reader enforces (regenerated constant UBJSON_MAX_DEPTH).  Since the
   writer is a function of the tree, writing the re-read tree reproduces the original bytes. *)
Theorem C16_read_write : forall t b rest,
  wf_tree t -> (1 + depth_map t <= UBJSON_MAX_DEPTH)%N -> write_map t = Ok b ->
  read_map (b ++ xClose :: rest) = Ok (t, rest).
Proof. exact read_write_map. Qed.

(* a cut-off metadata block is never accepted *)
Theorem C16_truncated_rejected : forall t b pre suf,
  wf_tree t -> (1 + depth_map t <= UBJSON_MAX_DEPTH)%N -> write_map t = Ok b ->
  b ++ [xClose] = pre ++ suf -> suf <> [] -> exists e, read_map pre = Err e.
Proof. exact read_map_truncated. Qed.

(* in a whole file: the metadata of the parsed game is the replay's metadata -- present with the same tree, or absent *)
Theorem C16_file_metadata : forall r st (sk h : bool),
  wf_replay r = true -> game_start (r_start r) = ROk st -> (sk = true -> finished r = true) ->
  exists g, slp_read {| o_skip := sk; o_hash := h |} (emit r) = Ok (g, []) /\ g_meta g = r_meta r.
Proof. exact c16_meta_preserved. Qed.

(* the JSON copy (metadata.json in .slpp) determines the tree, keys in order: the rendering has a left inverse *)
Theorem C16_json_copy_faithful : forall v, wf_val v -> uval_of_jv (jv_of_uval v) = Some v.
Proof. exact c16_json_roundtrip. Qed.

(* the marker bytes, the u8 length prefix of strings, the 4-byte big-endian integers and the brace pairs of the model are those
   regenerated from src/io/ubjson/{de,ser}.rs on this run; one step of the reader loop is the regenerated dispatch *)
Theorem C16_markers_from_source :
  xU = kmark "key" /\ xClose = kmark "end" /\ xS = vmark "str" /\ xl = vmark "i32" /\ xOpen = vmark "map" /\
  xU = n2b ubj_str_len_marker /\ xU = n2b ubj_wr_utf8_marker /\
  [xS] = wbefore "String" /\ [xl] = wbefore "Number" /\ [xOpen] = wbefore "Object" /\ [xClose] = wafter "Object" /\
  wafter "String" = [] /\ wafter "Number" = [].
Proof. exact ubjson_markers_from_source. Qed.
Theorem C16_reader_step_from_source : forall f depth acc bs,
  entries (S f) depth acc bs = entries_step_src (entries f) depth acc bs.
Proof. exact entries_from_source. Qed.

From Peppi Require Import Gen.UbjsonBodies Proofs.UbjsonBodiesLayout.
(* ---- the bodies of the UBJSON reader and writer beyond the markers, regenerated (Gen/UbjsonBodies.v): width / signedness /
   endianness of every read and write, the strict UTF-8 conversion (no trimming, no lossy conversion), the depth guard with its
   constant and first depth, the length prefix taken from the BYTE length, the checked integer conversions *)
Theorem C16_string_reader_from_source : forall bs, rd_str bs = rd_str_tbl bs.
Proof. exact rd_str_from_source. Qed.
Theorem C16_map_reader_from_source :
  (forall f depth acc bs, entries (S f) depth acc bs = entries_step_bodies (entries f) depth acc bs) /\
  (forall bs, read_map bs = if ubj_depth_refused ubj_depth_initial then Err EInvalid
                            else entries (S (List.length bs)) ubj_depth_initial [] bs).
Proof. exact (conj entries_bodies_from_source read_map_from_source). Qed.
Theorem C16_depth_guard_from_source : forall depth,
  ubj_depth_refused depth = (UBJSON_MAX_DEPTH <? depth)%N /\ ubj_depth_nested depth = (depth + 1)%N /\
  ubj_depth_to_val depth = depth /\ ubj_depth_initial = 1%N /\ UBJSON_MAX_DEPTH = 127%N.
Proof. exact depth_guard_from_source. Qed.
Theorem C16_writer_bodies_from_source :
  (forall s, wr_str s = wr_str_tbl s) /\ (forall n, write_val (UInt n) = wr_number_tbl n).
Proof. exact (conj wr_str_bodies_from_source write_number_from_source). Qed.

From Peppi Require Import Model.Slpp Gen.SlppEntries Proofs.SlppLayout Gen.SlppHelpers Proofs.SlppHelpersLayout.
(* ---- the .slpp JSON copy of the metadata: the entry exists in every archive (no guard), and the reader's arms are
   null => none, object => that map, anything else refused (regenerated) ---- *)
Theorem C16_metadata_entry_from_source :
  In ("metadata.json"%string, None) slpp_write_entries /\
  meta_of_shape slpp_meta_arms MsNull = Some None /\
  (forall m, meta_of_shape slpp_meta_arms (MsObject m) = Some (Some m)) /\
  (forall v, v <> "Null"%string -> v <> "Object"%string -> meta_of_shape slpp_meta_arms (MsOther v) = None).
Proof. split; [vm_compute; tauto | exact meta_arms_from_source]. Qed.

From Peppi Require Import Gen.SlppWriteSrc Proofs.SlppWriteLayout.
(* the metadata entry is the JSON of the game's metadata option itself (regenerated content table): absent stays absent *)
Theorem C16_slpp_writer_from_source : forall enc_peppi enc_meta enc_start enc_end enc_frames o g,
  slpp_write enc_peppi enc_meta enc_start enc_end enc_frames (comp_of_opts o) g =
  slpp_write_tbl enc_peppi enc_meta enc_start enc_end enc_frames o g.
Proof. exact slpp_write_from_source. Qed.

From Peppi Require Proofs.ReaderTies Proofs.WriterTies.
(* the reader model these theorems speak about is the one regenerated from the source on this run: one-shot read, every incremental
   entry point, the event dispatch with the splitter, the Game Start wiring, the metadata reader (Proofs/ReaderTies.v reader_tied) *)
Theorem C16_reader_is_the_source : ReaderTies.reader_tied.
Proof. exact ReaderTies.reader_tied_holds. Qed.
(* the writer model these theorems speak about is the one regenerated from the source on this run: the statement sequence of write(),
   the payload-size table, the frame counts, the frame writer, the gecko blocks, the metadata writer (Proofs/WriterTies.v writer_tied) *)
Theorem C16_writer_is_the_source : WriterTies.writer_tied.
Proof. exact WriterTies.writer_tied_holds. Qed.

Print Assumptions C16_write_ok.
Print Assumptions C16_read_write.
Print Assumptions C16_truncated_rejected.
Print Assumptions C16_file_metadata.
Print Assumptions C16_json_copy_faithful.
Print Assumptions C16_markers_from_source.
Print Assumptions C16_reader_step_from_source.
Print Assumptions C16_string_reader_from_source.
Print Assumptions C16_map_reader_from_source.
Print Assumptions C16_depth_guard_from_source.
Print Assumptions C16_writer_bodies_from_source.
Print Assumptions C16_metadata_entry_from_source.
Print Assumptions C16_slpp_writer_from_source.
Print Assumptions C16_reader_is_the_source.
Print Assumptions C16_writer_is_the_source.
