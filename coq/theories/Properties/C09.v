(* C09 -- Writers refuse games newer than the supported version instead of losing data.
   assert_max_version and MAX_SUPPORTED_VERSION are regenerated from src/io/slippi/mod.rs. *)
From Coq Require Import List NArith Bool.
From Peppi Require Import Gen.Funs Proofs.C20Proof.
Local Open Scope N_scope.

Theorem C09_guard_iff : forall v, assert_max_version_ok v = true <-> lex3_le v MAX_SUPPORTED_VERSION.
Proof. exact c09_max_iff. Qed.

Theorem C09_max_value : MAX_SUPPORTED_VERSION = (3, 16, 0).
Proof. exact c09_max_value. Qed.

Print Assumptions C09_guard_iff.
Print Assumptions C09_max_value.
