(* C09 -- Writers refuse games newer than the supported version instead of losing data.
   assert_max_version and MAX_SUPPORTED_VERSION are regenerated from src/io/slippi/mod.rs; writer models
   Model/Writer.v (.slp) and Model/Slpp.v (.slpp). *)
From Coq Require Import List NArith Bool.
From Coq.Strings Require Import Byte.
From Peppi Require Import Base.Outcome Gen.Funs Model.Start Model.Parse Model.Reader Model.Writer Model.Slpp
  Proofs.C20Proof Proofs.C09Proof Proofs.SlppProof.
Local Open Scope N_scope.

(* the regenerated guard is the lexicographic comparison with the regenerated maximum, for EVERY version triple *)
Theorem C09_guard_iff : forall v, assert_max_version_ok v = true <-> lex3_le v MAX_SUPPORTED_VERSION.
Proof. exact c09_max_iff. Qed.

Theorem C09_max_value : MAX_SUPPORTED_VERSION = (3, 16, 0).
Proof. exact c09_max_value. Qed.

(* both writers return an error for EVERY game above the maximum ... *)
Theorem C09_slp_writer_refuses : forall g,
  assert_max_version_ok (st_version (g_start g)) = false -> slp_write g = Err EInvalid.
Proof. exact slp_write_refuses. Qed.
Theorem C09_slpp_writer_refuses : forall enc_peppi enc_meta enc_start enc_end enc_frames c g,
  assert_max_version_ok (st_version (g_start (sg_game g))) = false ->
  slpp_write enc_peppi enc_meta enc_start enc_end enc_frames c g = Err EInvalid.
Proof. exact slpp_write_refuses. Qed.

(* ... and the .slp writer returns an error ONLY then: at or below the maximum it never refuses (whatever else is wrong
   with the game shows as a different outcome, never as the version error) *)
Theorem C09_slp_writer_refuses_only_then : forall g e,
  slp_write g = Err e -> assert_max_version_ok (st_version (g_start g)) = false /\ e = EInvalid.
Proof. exact slp_write_err_only_version. Qed.

From Peppi Require Proofs.WriterTies.
(* the writer model these theorems speak about is the one regenerated from the source on this run: the statement sequence of write(),
   the payload-size table, the frame counts, the frame writer, the gecko blocks, the metadata writer (Proofs/WriterTies.v writer_tied) *)
Theorem C09_writer_is_the_source : WriterTies.writer_tied.
Proof. exact WriterTies.writer_tied_holds. Qed.

Print Assumptions C09_guard_iff.
Print Assumptions C09_max_value.
Print Assumptions C09_slp_writer_refuses.
Print Assumptions C09_slpp_writer_refuses.
Print Assumptions C09_slp_writer_refuses_only_then.
Print Assumptions C09_writer_is_the_source.
