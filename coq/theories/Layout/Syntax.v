(* Syntax of the tables that tools/rust2coq.py regenerates from the generated Rust under src/frame/**.
   Nothing here has meaning yet: Layout/Sem.v gives the interpreters. *)
From Coq Require Import NArith Bool List String.
Import ListNotations.

Inductive prim := U8 | I8 | U16 | I16 | U32 | I32 | F32.

Definition prim_eqb (a b : prim) : bool :=
  match a, b with
  | U8, U8 | I8, I8 | U16, U16 | I16, I16 | U32, U32 | I32, I32 | F32, F32 => true
  | _, _ => false
  end.

Lemma prim_eqb_eq a b : prim_eqb a b = true <-> a = b.
Proof. destruct a, b; cbn; split; intro H; try reflexivity; try discriminate. Qed.

Definition width (p : prim) : nat :=
  match p with U8 | I8 => 1 | U16 | I16 => 2 | U32 | I32 | F32 => 4 end%nat.

(* statements of read_push / push_null / write / size / data_type / into_struct_array *)
Inductive instr :=
| Fld (name : string) (p : option prim) (unwrapped : bool)  (* one primitive column access *)
| Sub (name : string) (unwrapped : bool)                    (* nested struct, by field name *)
| SubT (name : string) (ty : string)                        (* nested struct, by type name *)
| Prim (p : prim)                                           (* size += size_of::<p>() *)
| ValidityTrue                                              (* self.validity.as_mut().map(|v| v.push(true)) *)
| ValidityFalse                                             (* get_or_insert_with(from_len_set(len)).push(false) *)
| Gate (M m : N) (body : list instr).                       (* if version.gte(M, m) { body } *)

Definition table := list (string * list instr).

Definition gate := (N * N)%type.

Inductive wc_field :=
| WcPrim (name : string) (p : prim) (g : option gate)
| WcSub (name : string) (ty : string) (g : option gate)
| WcValidityNone
| WcValidityLt (M m : N).

Inductive tr_kind := TrVal | TrSub.
Inductive tr_field := TrF (target source : string) (k : tr_kind) (opt : bool).

Inductive fsa_field :=
| FsaPrim (name : string) (idx : N) (p : prim) (opt : bool)
| FsaSub (name : string) (idx : N) (ty : string) (opt : bool)
| FsaValidity.

Inductive decl_field :=
| DPrim (name : string) (p : prim) (opt : bool)
| DValidity (opt : bool)
| DSub (name : string) (ty : string) (opt : bool).

Inductive fj_field :=
| FjPrim (name : string) (p : prim) (g : option gate)
| FjSub (name : string) (ty : string) (g : option gate).
