(* The regenerated transpose_one / From<mutable> / Arrow tables: flattening to leaf maps, the decidable
   conditions under which they are the identity on the reader's leaves, and what that implies (C13, C14). *)
From Coq Require Import List Arith NArith Bool String Lia.
From Peppi Require Import Layout.Syntax Gen.Funs Layout.Sem Layout.SpecTheory Gen.Tables Layout.Shapes Layout.Rows.
Import ListNotations.
Local Open Scope string_scope.

(* ---- transpose_one tables -> (target leaf path, source leaf path, Option-ness) ---- *)
Fixpoint tr_flat (tbl : list (string * list tr_field)) (decls : list (string * list decl_field)) (fuel : nat)
         (S : string) (tp sp : string) (outer_opt : bool) {struct fuel} : option (list (string * string * bool)) :=
  match fuel with
  | O => None
  | Datatypes.S f =>
    match assoc S tbl with
    | None => None
    | Some fs =>
      (fix go (fs : list tr_field) : option (list (string * string * bool)) :=
         match fs with
         | [] => Some []
         | TrF target source k opt :: r =>
           let here :=
             match k with
             | TrVal => Some [(dot tp target, dot sp source, outer_opt || opt)]
             | TrSub =>
               match assoc S decls with
               | Some d => match decl_sub_type d source with
                           | Some ty => tr_flat tbl decls f ty (dot tp (target ++ ".")) (dot sp (source ++ ".")) (outer_opt || opt)
                           | None => None
                           end
               | None => None
               end
             end in
           match here, go r with
           | Some a, Some b => Some (a ++ b)%list
           | _, _ => None
           end
         end) fs
    end
  end.

Definition is_nil {A} (l : list A) : bool := match l with [] => true | _ => false end.

(* the identity leaf map over the reader's leaves: every leaf to itself, Option exactly when it sits under a gate *)
Definition identity_map (E : string) : list (string * string * bool) :=
  map (fun l => (lpath l, lpath l, negb (is_nil (lgates l)))) (read_leaves E).

Definition triple_eqb (a b : string * string * bool) : bool :=
  String.eqb (fst (fst a)) (fst (fst b)) && String.eqb (snd (fst a)) (snd (fst b)) && Bool.eqb (snd a) (snd b).

Definition tr_is_identity (tbl : list (string * list tr_field)) (decls : list (string * list decl_field)) (E : string) : bool :=
  match tr_flat tbl decls 8 E "" "" false with
  | Some l => Nat.eqb (List.length l) (List.length (identity_map E)) && forallb (fun p => triple_eqb (fst p) (snd p)) (combine l (identity_map E))
  | None => false
  end.

(* the row view by table: target leaf <- value of the source leaf's column at row i; a version-absent Option column gives None *)
Definition view_by (m : list (string * string * bool)) (col : string -> option (list N)) (i : nat)
  : list (string * option N) :=
  map (fun t => (fst (fst t), match col (snd (fst t)) with Some l => nth_error l i | None => None end)) m.

(* ... and directly *)
Definition view_direct (E : string) (col : string -> option (list N)) (i : nat) : list (string * option N) :=
  map (fun l => (lpath l, match col (lpath l) with Some c => nth_error c i | None => None end)) (read_leaves E).

Lemma triple_eqb_eq a b : triple_eqb a b = true -> a = b.
Proof.
  destruct a as [[a1 a2] a3], b as [[b1 b2] b3]. unfold triple_eqb. cbn [fst snd]. intro H.
  apply andb_true_iff in H as [H H3]. apply andb_true_iff in H as [H1 H2].
  apply String.eqb_eq in H1, H2. apply Bool.eqb_prop in H3. subst. reflexivity.
Qed.

Lemma forallb_combine_eq {A} (eqb : A -> A -> bool) (Heq : forall a b, eqb a b = true -> a = b) (l1 l2 : list A) :
  Nat.eqb (List.length l1) (List.length l2) = true ->
  forallb (fun p => eqb (fst p) (snd p)) (combine l1 l2) = true -> l1 = l2.
Proof.
  revert l2. induction l1 as [|a l1 IH]; intros [|b l2] Hl Hf; cbn in *; try discriminate; try reflexivity.
  apply andb_true_iff in Hf as [H1 H2]. f_equal; [apply Heq; exact H1 | apply IH; assumption].
Qed.

Theorem transpose_identity tbl decls E col i :
  tr_is_identity tbl decls E = true ->
  exists m, tr_flat tbl decls 8 E "" "" false = Some m /\ view_by m col i = view_direct E col i.
Proof.
  unfold tr_is_identity. destruct (tr_flat tbl decls 8 E "" "" false) as [m|]; [|discriminate].
  intro H. apply andb_true_iff in H as [Hl Hf]. exists m. split; [reflexivity|].
  assert (Hm : m = identity_map E) by (eapply forallb_combine_eq; [exact triple_eqb_eq | exact Hl | exact Hf]).
  subst m. unfold view_by, view_direct, identity_map. rewrite map_map. reflexivity.
Qed.

(* ---- own-level helpers for From<mutable> and the Arrow tables ---- *)
Definition decl_names (d : list decl_field) : list (string * bool * bool) :=   (* name, is nested struct, Option *)
  flat_map (fun f => match f with
                     | DPrim n _ o => [(n, false, o)]
                     | DSub n _ o => [(n, true, o)]
                     | DValidity _ => []
                     end) d.

Definition has_validity (d : list decl_field) : bool :=
  existsb (fun f => match f with DValidity _ => true | _ => false end) d.

(* From<mutable::X> for X: every field moved to the field of the same name, Option mapped iff the column is an Option *)
Definition from_mutable_identity (S : string) : bool :=
  match assoc S tbl_from_mutable, assoc S tbl_mut_decl with
  | Some fs, Some d =>
      let dn := (map (fun x => (fst (fst x), snd x)) (decl_names d) ++ (if has_validity d then [("validity", true)] else []))%list in
      Nat.eqb (List.length fs) (List.length dn) &&
      forallb (fun p => String.eqb (fst (fst (fst p))) (snd (fst (fst p))) && String.eqb (snd (fst (fst p))) (fst (snd p))
                        && Bool.eqb (snd (fst p)) (snd (snd p))) (combine fs dn)
  | _, _ => false
  end.

(* mutable and immutable columns and the transposed record declare the same fields, Option in the same places *)
Definition decls_agree (S : string) : bool :=
  match assoc S tbl_tr_decl, assoc S tbl_mut_decl, assoc S tbl_imm_decl with
  | Some t, Some m, Some i =>
      let eqk := fun (a b : list (string * bool * bool)) =>
                   Nat.eqb (List.length a) (List.length b)
                   && forallb (fun p => String.eqb (fst (fst (fst p))) (fst (fst (snd p)))
                                        && Bool.eqb (snd (fst (fst p))) (snd (fst (snd p)))
                                        && Bool.eqb (snd (fst p)) (snd (snd p))) (combine a b) in
      eqk (decl_names t) (decl_names m) && eqk (decl_names t) (decl_names i)
  | _, _, _ => false
  end.

(* ---- Arrow ---- *)
(* own-level (name, enclosing gates) of data_type / into_struct_array statements *)
Fixpoint own_gated (fuel : nat) (ins : list instr) (gs : list gate) : list (string * list gate) :=
  match fuel with
  | O => []
  | Datatypes.S f =>
    flat_map (fun i => match i with
                       | Fld n _ _ => [(n, gs)]
                       | Sub n _ => [(n, gs)]
                       | SubT n _ => [(n, gs)]
                       | Gate M m body => own_gated f body (gs ++ [(M, m)])%list
                       | _ => []
                       end) ins
  end.

Definition own_of (tbl : table) (S : string) : list (string * list gate) :=
  match assoc S tbl with Some ins => own_gated 24 ins [] | None => [] end.

Definition pair_gates_eqb (a b : string * list gate) : bool := String.eqb (fst a) (fst b) && gates_eqb (snd a) (snd b).

(* data_type and into_struct_array list the same fields under the same gates; from_struct_array reads field k of the
   full list from position k, through [get] exactly when the field is gated; validity is passed both ways or neither *)
Definition arrow_positional (S : string) : bool :=
  let dt := own_of tbl_data_type S in
  let into := own_of tbl_into_struct_array S in
  Nat.eqb (List.length dt) (List.length into)
  && forallb (fun p => pair_gates_eqb (fst p) (snd p)) (combine dt into)
  && forallb (fun x => chain_mono (snd x)) dt
  && match assoc S tbl_from_struct_array, assoc S tbl_into_validity with
     | Some fs, Some iv =>
         let body := filter (fun f => match f with FsaValidity => false | _ => true end) fs in
         Nat.eqb (List.length body) (List.length dt)
         && forallb (fun p => match fst p with
                              | (k, FsaPrim n idx _ opt) | (k, FsaSub n idx _ opt) =>
                                String.eqb n (fst (snd p)) && N.eqb idx (N.of_nat k) && Bool.eqb opt (negb (is_nil (snd (snd p))))
                              | (_, FsaValidity) => false
                              end) (combine (combine (seq 0 (List.length body)) body) dt)
         && Bool.eqb iv (existsb (fun f => match f with FsaValidity => true | _ => false end) fs)
     | _, _ => false
     end.

(* own-level gates are sorted (each field's gates extend or follow the previous field's): enabled fields form a prefix *)
Definition since_of (gs : list gate) : option gate := last (map Some gs) None.
Fixpoint since_sorted (prev : option gate) (l : list (string * list gate)) : bool :=
  match l with
  | [] => true
  | x :: r => since_le prev (since_of (snd x)) && since_sorted (since_of (snd x)) r
  end.

Definition arrow_prefix_closed (S : string) : bool := since_sorted None (own_of tbl_data_type S).

(* the Arrow leaves (dotted names, primitive types, gates) are the reader's leaves *)
Definition arrow_leaves_match (E : string) : bool :=
  match flatten_loose tbl_data_type tbl_imm_decl E with
  | Some a =>
      let b := read_leaves E in
      Nat.eqb (List.length a) (List.length b)
      && forallb (fun p => String.eqb (fst (fst (fst p))) (lpath (snd p))
                           && oprim_eqb (snd (fst (fst p))) (Some (lprim (snd p)))
                           && gates_eqb (snd (fst p)) (lgates (snd p))) (combine a b)
  | None => false
  end.

(* generic: when enabling is downward closed along a list, the k-th enabled element is the k-th element *)
Fixpoint down_closed {A} (en : A -> bool) (l : list A) : Prop :=
  match l with
  | [] => True
  | a :: r => (en a = false -> forallb (fun x => negb (en x)) r = true) /\ down_closed en r
  end.

Lemma filter_none {A} (en : A -> bool) (l : list A) : forallb (fun x => negb (en x)) l = true -> filter en l = [].
Proof.
  induction l as [|a r IH]; cbn; intro H; [reflexivity|].
  apply andb_true_iff in H as [H1 H2]. apply negb_true_iff in H1. rewrite H1. apply IH. exact H2.
Qed.

Theorem prefix_positional {A} (en : A -> bool) (l : list A) k :
  down_closed en l ->
  nth_error (filter en l) k = match nth_error l k with Some a => if en a then Some a else None | None => None end.
Proof.
  revert k. induction l as [|a r IH]; intros k H.
  - destruct k; reflexivity.
  - destruct H as [Ha Hr]. cbn [filter]. destruct (en a) eqn:E.
    + destruct k as [|k]; cbn [nth_error]; [rewrite E; reflexivity | apply IH; exact Hr].
    + rewrite (filter_none en r (Ha eq_refl)).
      destruct k as [|k]; cbn [nth_error]; [rewrite E; reflexivity|].
      destruct (nth_error r k) as [x|] eqn:Ek; [|destruct k; reflexivity].
      assert (Hx : en x = false).
      { pose proof (Ha eq_refl) as Hall. rewrite forallb_forall in Hall.
        specialize (Hall x (nth_error_In _ _ Ek)). apply negb_true_iff in Hall. exact Hall. }
      rewrite Hx. destruct k; reflexivity.
Qed.
