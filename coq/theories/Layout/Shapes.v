(* Decidable agreement conditions between the regenerated tables of one struct ("same shape"): the reader,
   the writer, the size function, the null-padding function and the constructor must enumerate the same
   leaves under the same gates, and every [as_mut().unwrap()] / [as_ref().unwrap()] must be on a column that
   the constructor creates under a gate that is implied by the enclosing gates. Checked by kernel
   computation on the regenerated tables in Properties/C03.v, C01.v. *)
From Coq Require Import List Arith NArith Bool String.
From Peppi Require Import Layout.Syntax Gen.Funs Layout.Sem Layout.SpecTheory Gen.Tables.
Import ListNotations.
Local Open Scope string_scope.

(* flatten variant for push_null (no primitive recorded) and size (no names): compare leaf by leaf *)
Fixpoint flat_loose (tbl : table) (decls : list (string * list decl_field)) (fuel : nat)
         (S : string) (pfx : string) (gs : list gate) (ins : list instr) {struct fuel}
  : option (list (string * option prim * list gate)) :=
  match fuel with
  | O => None
  | Datatypes.S fuel' =>
    (fix go (ins : list instr) {struct ins} : option (list (string * option prim * list gate)) :=
       match ins with
       | [] => Some []
       | i :: r =>
         let here :=
           match i with
           | Fld n p _ => Some [(dot pfx n, p, gs)]
           | Sub n _ =>
             match assoc S decls with
             | Some d =>
               match decl_sub_type d n with
               | Some ty =>
                 match assoc ty tbl with
                 | Some body => flat_loose tbl decls fuel' ty (dot pfx (n ++ ".")) gs body
                 | None => None
                 end
               | None => None
               end
             | None => None
             end
           | SubT n ty =>
             match assoc ty tbl with
             | Some body => flat_loose tbl decls fuel' ty (dot pfx (n ++ ".")) gs body
             | None => None
             end
           | Prim p => Some [("", Some p, gs)]
           | ValidityTrue | ValidityFalse => Some []
           | Gate M m body => flat_loose tbl decls fuel' S pfx (gs ++ [(M, m)])%list body
           end in
         match here, go r with
         | Some a, Some b => Some (a ++ b)%list
         | _, _ => None
         end
       end) ins
  end.

Definition flatten_loose tbl decls S :=
  match assoc S tbl with Some body => flat_loose tbl decls 24 S "" [] body | None => None end.

Definition gates_eqb (a b : list gate) : bool :=
  (Nat.eqb (List.length a) (List.length b)) && forallb (fun p => gate_eqb (fst p) (snd p)) (combine a b).

Definition oprim_eqb (a b : option prim) : bool :=
  match a, b with Some x, Some y => prim_eqb x y | None, None => true | _, _ => false end.

(* reader vs writer: same paths, prims and gates *)
Definition same_rw (S : string) : bool :=
  match flatten tbl_read_push tbl_mut_decl S, flatten tbl_write tbl_imm_decl S with
  | Some a, Some b =>
      Nat.eqb (List.length a) (List.length b) &&
      forallb (fun p => String.eqb (lpath (fst p)) (lpath (snd p)) && prim_eqb (lprim (fst p)) (lprim (snd p))
                        && gates_eqb (lgates (fst p)) (lgates (snd p))) (combine a b)
  | _, _ => false
  end.

(* reader vs size(): same prims and gates, in order *)
Definition same_size (S : string) : bool :=
  match flatten tbl_read_push tbl_mut_decl S, flatten_loose tbl_size tbl_imm_decl S with
  | Some a, Some b =>
      Nat.eqb (List.length a) (List.length b) &&
      forallb (fun p => oprim_eqb (Some (lprim (fst p))) (snd (fst (snd p)))
                        && gates_eqb (lgates (fst p)) (snd (snd p))) (combine a b)
  | _, _ => false
  end.

(* reader vs push_null: same paths and gates *)
Definition same_null (S : string) : bool :=
  match flatten tbl_read_push tbl_mut_decl S, flatten_loose tbl_push_null tbl_mut_decl S with
  | Some a, Some b =>
      Nat.eqb (List.length a) (List.length b) &&
      forallb (fun p => String.eqb (lpath (fst p)) (fst (fst (snd p)))
                        && gates_eqb (lgates (fst p)) (snd (snd p))) (combine a b)
  | _, _ => false
  end.

(* the version-size function computed from the size table equals the bytes the reader consumes *)
Definition size_at (v : version) (S : string) : option nat :=
  match flatten tbl_read_push tbl_mut_decl S with
  | Some ls => Some (tsize (leaves_at v ls))
  | None => None
  end.

(* with_capacity: a column is optional exactly when it sits under a gate, the gate is its leaf's innermost
   gate in read_push, and the [unwrap] flags of read_push / push_null / write are set exactly on optional
   columns (so no unwrap is ever on None for the version the columns were created for). Own-level only. *)
Fixpoint own_fields (ins : list instr) (gs : list gate) (fuel : nat) : list (string * bool * list gate) :=
  match fuel with
  | O => []
  | Datatypes.S fuel' =>
    flat_map (fun i =>
      match i with
      | Fld n _ u => [(n, u, gs)]
      | Sub n u => [(n, u, gs)]
      | Gate M m body => own_fields body (gs ++ [(M, m)])%list fuel'
      | _ => []
      end) ins
  end.

Definition wc_own (l : list wc_field) : list (string * option gate) :=
  flat_map (fun f => match f with WcPrim n _ g => [(n, g)] | WcSub n _ g => [(n, g)] | _ => [] end) l.

Definition last_gate (gs : list gate) : option gate := last (map Some gs) None.

Definition unwrap_ok_tbl (tbl : table) (S : string) : bool :=
  match assoc S tbl, assoc S tbl_with_capacity with
  | Some ins, Some wc =>
      let own := own_fields ins [] 24 in
      let w := wc_own wc in
      Nat.eqb (List.length own) (List.length w) &&
      forallb (fun p =>
        let '(n, u, gs) := fst p in
        let '(n', g) := snd p in
        String.eqb n n' && ogate_eqb (last_gate gs) g && chain_mono gs
        && Bool.eqb u (match g with Some _ => true | None => false end)) (combine own w)
  | _, _ => false
  end.

Definition unwrap_ok (S : string) : bool :=
  unwrap_ok_tbl tbl_read_push S && unwrap_ok_tbl tbl_push_null S && unwrap_ok_tbl tbl_write S.

Definition all_structs : list string :=
  ["End"; "Item"; "ItemMisc"; "Position"; "Post"; "Pre"; "Start"; "StateFlags"; "TriggersPhysical"; "Velocities"; "Velocity"].
