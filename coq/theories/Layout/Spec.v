(* Hand transcription of the Slippi replay spec for the five frame-level events: for every field the library
   exposes, its path, primitive type, byte offset in the event (command byte = offset 0, as the spec counts) and
   the version that introduced it. Written independently of gen/resources/frames.json and of the generated Rust;
   the closed obligations in Properties/C03.v compare it with what the current Rust source says.
   Format (parsed by tools/pv/spec.py for the search oracle): one SL "path" PRIM OFF SINCE per line. *)
From Coq Require Import List NArith String.
From Peppi Require Import Layout.Syntax Layout.SpecTheory.
Import ListNotations.
Local Open Scope string_scope.

Definition SL (p : string) (t : prim) (off : nat) (since : option gate) : spec_leaf :=
  {| spath := p; sprim := t; soff := off; ssince := since |}.
Definition V (M m : N) : option gate := Some (M, m).

(* header bytes before the fields: command byte, frame number (i32), and for pre/post port + follower flag *)
Definition hdr_pre : nat := 7.
Definition hdr_post : nat := 7.
Definition hdr_start : nat := 5.
Definition hdr_item : nat := 5.
Definition hdr_end : nat := 5.

(* Pre-Frame Update 0x37 *)
Definition spec_pre : list spec_leaf := [
  SL "random_seed"         U32 7  None;
  SL "state"               U16 11 None;
  SL "position.x"          F32 13 None;
  SL "position.y"          F32 17 None;
  SL "direction"           F32 21 None;
  SL "joystick.x"          F32 25 None;
  SL "joystick.y"          F32 29 None;
  SL "cstick.x"            F32 33 None;
  SL "cstick.y"            F32 37 None;
  SL "triggers"            F32 41 None;
  SL "buttons"             U32 45 None;
  SL "buttons_physical"    U16 49 None;
  SL "triggers_physical.l" F32 51 None;
  SL "triggers_physical.r" F32 55 None;
  SL "raw_analog_x"        I8  59 (V 1 2);
  SL "percent"             F32 60 (V 1 4);
  SL "raw_analog_y"        I8  64 (V 3 15)
].

(* Post-Frame Update 0x38 *)
Definition spec_post : list spec_leaf := [
  SL "character"                U8  7  None;
  SL "state"                    U16 8  None;
  SL "position.x"               F32 10 None;
  SL "position.y"               F32 14 None;
  SL "direction"                F32 18 None;
  SL "percent"                  F32 22 None;
  SL "shield"                   F32 26 None;
  SL "last_attack_landed"       U8  30 None;
  SL "combo_count"              U8  31 None;
  SL "last_hit_by"              U8  32 None;
  SL "stocks"                   U8  33 None;
  SL "state_age"                F32 34 (V 0 2);
  SL "state_flags.0"            U8  38 (V 2 0);
  SL "state_flags.1"            U8  39 (V 2 0);
  SL "state_flags.2"            U8  40 (V 2 0);
  SL "state_flags.3"            U8  41 (V 2 0);
  SL "state_flags.4"            U8  42 (V 2 0);
  SL "misc_as"                  F32 43 (V 2 0);
  SL "airborne"                 U8  47 (V 2 0);
  SL "ground"                   U16 48 (V 2 0);
  SL "jumps"                    U8  50 (V 2 0);
  SL "l_cancel"                 U8  51 (V 2 0);
  SL "hurtbox_state"            U8  52 (V 2 1);
  SL "velocities.self_x_air"    F32 53 (V 3 5);
  SL "velocities.self_y"        F32 57 (V 3 5);
  SL "velocities.knockback_x"   F32 61 (V 3 5);
  SL "velocities.knockback_y"   F32 65 (V 3 5);
  SL "velocities.self_x_ground" F32 69 (V 3 5);
  SL "hitlag"                   F32 73 (V 3 8);
  SL "animation_index"          U32 77 (V 3 11);
  SL "last_hit_by_instance"     U16 81 (V 3 16);
  SL "instance_id"              U16 83 (V 3 16)
].

(* Frame Start 0x3A *)
Definition spec_start : list spec_leaf := [
  SL "random_seed"         U32 5 None;
  SL "scene_frame_counter" U32 9 (V 3 10)
].

(* Item Update 0x3B *)
Definition spec_item : list spec_leaf := [
  SL "type"        U16 5  None;
  SL "state"       U8  7  None;
  SL "direction"   F32 8  None;
  SL "velocity.x"  F32 12 None;
  SL "velocity.y"  F32 16 None;
  SL "position.x"  F32 20 None;
  SL "position.y"  F32 24 None;
  SL "damage"      U16 28 None;
  SL "timer"       F32 30 None;
  SL "id"          U32 34 None;
  SL "misc.0"      U8  38 (V 3 2);
  SL "misc.1"      U8  39 (V 3 2);
  SL "misc.2"      U8  40 (V 3 2);
  SL "misc.3"      U8  41 (V 3 2);
  SL "owner"       I8  42 (V 3 6);
  SL "instance_id" U16 43 (V 3 16)
].

(* Frame Bookend 0x3C *)
Definition spec_end : list spec_leaf := [
  SL "latest_finalized_frame" I32 5 (V 3 7)
].

Definition spec_of (E : string) : list spec_leaf :=
  if String.eqb E "Pre" then spec_pre else
  if String.eqb E "Post" then spec_post else
  if String.eqb E "Start" then spec_start else
  if String.eqb E "Item" then spec_item else
  if String.eqb E "End" then spec_end else [].

Definition hdr_of (E : string) : nat :=
  if String.eqb E "Pre" then hdr_pre else
  if String.eqb E "Post" then hdr_post else 5.

Definition events : list string := ["Pre"; "Post"; "Start"; "Item"; "End"].
