(* Generic theorems about the row interpreters of Layout/Rows.v:
   W1  the writer re-encodes a row to itself whenever the reader and writer tables flatten to the same leaves;
   W2  size(version) computed from the size table is the row size whenever the size table agrees leaf by leaf
       with the reader table (and contains only Prim / SubT / Gate / Validity statements).
   Nothing here depends on the contents of the regenerated tables except through the closed boolean checks
   [same_rw], [same_size], [size_table_pure], evaluated by vm_compute at the end. *)
From Coq Require Import List Arith NArith Lia Bool String ZifyBool ZifyN ZifyNat.
From Coq.Strings Require Import Byte.
From Peppi Require Import Base.Bytes Layout.Syntax Gen.Funs Gen.Tables Layout.Sem Layout.SpecTheory
     Layout.Rows Layout.Shapes.
Import ListNotations.

(* ------------------------------------------------------------------------------------------------ *)
(* boolean equalities are equalities                                                                 *)
(* ------------------------------------------------------------------------------------------------ *)

Lemma gates_eqb_eq (a b : list gate) : gates_eqb a b = true -> a = b.
Proof.
  unfold gates_eqb. revert b. induction a as [|x a IH]; intros b H; destruct b as [|y b].
  - reflexivity.
  - cbn in H. discriminate.
  - cbn in H. discriminate.
  - cbn [List.length combine forallb fst snd] in H.
    apply andb_true_iff in H as [Hlen Hall]. apply andb_true_iff in Hall as [Hxy Hall].
    apply gate_eqb_eq in Hxy. subst y. f_equal. apply IH.
    apply andb_true_iff. split; [|exact Hall].
    apply Nat.eqb_eq in Hlen. apply Nat.eqb_eq. cbn [List.length] in Hlen. lia.
Qed.

Definition leaf_eqb (p : gleaf * gleaf) : bool :=
  String.eqb (lpath (fst p)) (lpath (snd p)) && prim_eqb (lprim (fst p)) (lprim (snd p))
  && gates_eqb (lgates (fst p)) (lgates (snd p)).

Lemma leaf_eqb_eq a b : leaf_eqb (a, b) = true -> a = b.
Proof.
  unfold leaf_eqb. cbn [fst snd]. intro H.
  apply andb_true_iff in H as [H Hg]. apply andb_true_iff in H as [Hp Hq].
  apply String.eqb_eq in Hp. apply prim_eqb_eq in Hq. apply gates_eqb_eq in Hg.
  destruct a as [pa qa ga], b as [pb qb gb]. cbn [lpath lprim lgates] in *. subst. reflexivity.
Qed.

Lemma pairwise_eq {A} (f : A * A -> bool) (Hf : forall a b, f (a, b) = true -> a = b) (a b : list A) :
  Nat.eqb (List.length a) (List.length b) = true -> forallb f (combine a b) = true -> a = b.
Proof.
  revert b. induction a as [|x a IH]; intros b Hlen Hall; destruct b as [|y b].
  - reflexivity.
  - cbn in Hlen. discriminate.
  - cbn in Hlen. discriminate.
  - cbn [combine forallb] in Hall. apply andb_true_iff in Hall as [Hxy Hall].
    apply Hf in Hxy. subst y. f_equal. apply IH; [|exact Hall].
    apply Nat.eqb_eq in Hlen. apply Nat.eqb_eq. cbn [List.length] in Hlen. lia.
Qed.

(* ------------------------------------------------------------------------------------------------ *)
(* W1                                                                                                *)
(* ------------------------------------------------------------------------------------------------ *)

Lemma same_rw_leaves E : same_rw E = true -> write_leaves E = read_leaves E.
Proof.
  unfold same_rw, write_leaves, read_leaves. intro H.
  destruct (flatten tbl_read_push tbl_mut_decl E) as [a|]; [|discriminate].
  destruct (flatten tbl_write tbl_imm_decl E) as [b|]; [|discriminate].
  apply andb_true_iff in H as [Hlen Hall].
  symmetry. apply (pairwise_eq leaf_eqb leaf_eqb_eq a b Hlen). exact Hall.
Qed.

Lemma enc_length ls vs : List.length vs = List.length ls -> List.length (enc ls vs) = tsize ls.
Proof.
  revert vs. induction ls as [|l r IH]; intros vs H; destruct vs as [|x xs].
  - reflexivity.
  - cbn in H. discriminate.
  - cbn in H. discriminate.
  - cbn [enc tsize]. rewrite app_length, length_be_enc. f_equal. apply IH.
    cbn [List.length] in H. lia.
Qed.

(* a byte string of exactly the layout's size decodes with nothing left over, and re-encodes to itself *)
Lemma dec_exact ls bs :
  List.length bs = tsize ls -> exists vs, dec ls bs = Some (vs, []) /\ enc ls vs = bs.
Proof.
  intro Hlen.
  assert (Hex : exists r, dec ls bs = Some r) by (apply dec_succeeds_iff; lia).
  destruct Hex as [[vs rest] Hd].
  pose proof (enc_dec _ _ _ _ Hd) as Hed.
  pose proof (dec_length _ _ _ _ Hd) as Hvl.
  pose proof (enc_length ls vs Hvl) as Hel.
  assert (Hrest : List.length rest = O).
  { assert (Hl : List.length (enc ls vs ++ rest) = List.length bs) by (rewrite Hed; reflexivity).
    rewrite app_length in Hl. lia. }
  destruct rest as [|b rest']; [|cbn in Hrest; discriminate].
  rewrite app_nil_r in Hed. exists vs. split; [exact Hd|exact Hed].
Qed.

Theorem write_row_id v E r :
  same_rw E = true -> List.length r = row_size v E -> write_row v E r = r.
Proof.
  intros Hrw Hlen. unfold write_row. rewrite (same_rw_leaves E Hrw).
  change (leaves_at v (read_leaves E)) with (row_leaves v E).
  unfold row_size in Hlen.
  destruct (dec_exact (row_leaves v E) r Hlen) as [vs [Hd He]].
  rewrite Hd. exact He.
Qed.

(* ------------------------------------------------------------------------------------------------ *)
(* W2                                                                                                *)
(* ------------------------------------------------------------------------------------------------ *)

(* the statements size_instrs gives a meaning to (it counts Fld and Sub as 0, flat_loose does not) *)
Fixpoint pure_instr (i : instr) : bool :=
  match i with
  | Fld _ _ _ | Sub _ _ => false
  | Gate _ _ body => forallb pure_instr body
  | SubT _ _ | Prim _ | ValidityTrue | ValidityFalse => true
  end.

Definition pure_table (tbl : table) : bool := forallb (fun kv => forallb pure_instr (snd kv)) tbl.
Definition size_table_pure : bool := pure_table tbl_size.

Lemma pure_assoc (tbl : table) ty body :
  pure_table tbl = true -> assoc ty tbl = Some body -> forallb pure_instr body = true.
Proof.
  unfold pure_table. induction tbl as [|[k b] t IH]; intros Hp Ha.
  - cbn in Ha. discriminate.
  - cbn [forallb snd] in Hp. apply andb_true_iff in Hp as [Hb Ht].
    cbn [assoc] in Ha. destruct (String.eqb ty k).
    + inversion Ha; subst. exact Hb.
    + apply IH; assumption.
Qed.

Definition loose_leaf := (string * option prim * list gate)%type.

Definition owidth (p : option prim) : nat := match p with Some q => width q | None => O end.

(* bytes of the loose leaves that version v enables *)
Fixpoint wsum (v : version) (ls : list loose_leaf) : nat :=
  match ls with
  | [] => O
  | l :: r => ((if forallb (gte v) (snd l) then owidth (snd (fst l)) else O) + wsum v r)%nat
  end.

Lemma wsum_app v a b : wsum v (a ++ b) = (wsum v a + wsum v b)%nat.
Proof. induction a as [|l a IH]; [reflexivity|]. cbn [app wsum]. rewrite IH. lia. Qed.

(* one-step unfoldings of the two nested fixpoints *)
Lemma flat_loose_nil tbl decls f St pfx gs : flat_loose tbl decls (S f) St pfx gs [] = Some [].
Proof. reflexivity. Qed.

Lemma flat_loose_cons tbl decls f St pfx gs i r :
  flat_loose tbl decls (S f) St pfx gs (i :: r) =
  match
    match i with
    | Fld n p _ => Some [(dot pfx n, p, gs)]
    | Sub n _ =>
      match assoc St decls with
      | Some d =>
        match decl_sub_type d n with
        | Some ty =>
          match assoc ty tbl with
          | Some body => flat_loose tbl decls f ty (dot pfx (n ++ ".")) gs body
          | None => None
          end
        | None => None
        end
      | None => None
      end
    | SubT n ty =>
      match assoc ty tbl with
      | Some body => flat_loose tbl decls f ty (dot pfx (n ++ ".")) gs body
      | None => None
      end
    | Prim p => Some [(""%string, Some p, gs)]
    | ValidityTrue | ValidityFalse => Some []
    | Gate M m body => flat_loose tbl decls f St pfx (gs ++ [(M, m)]) body
    end, flat_loose tbl decls (S f) St pfx gs r with
  | Some a, Some b => Some (a ++ b)
  | _, _ => None
  end.
Proof. reflexivity. Qed.

Lemma size_instrs_nil f v : size_instrs (S f) v [] = O.
Proof. reflexivity. Qed.

Lemma size_instrs_cons f v i r :
  size_instrs (S f) v (i :: r) =
  (match i with
   | Prim p => width p
   | SubT _ ty => match assoc ty tbl_size with Some body => size_instrs f v body | None => O end
   | Gate M m body => if slippi_Version_gte v M m then size_instrs f v body else O
   | _ => O
   end + size_instrs (S f) v r)%nat.
Proof. reflexivity. Qed.

Lemma forallb_snoc {A} (f : A -> bool) l x : forallb f (l ++ [x]) = forallb f l && f x.
Proof. rewrite forallb_app. cbn [forallb]. rewrite andb_true_r. reflexivity. Qed.

(* every leaf flattened under a gate context that v does not satisfy is disabled at v *)
Lemma flat_loose_disabled v tbl decls fuel :
  forall St pfx gs ins ls,
    forallb (gte v) gs = false ->
    flat_loose tbl decls fuel St pfx gs ins = Some ls -> wsum v ls = O.
Proof.
  induction fuel as [|f IHf]; intros St pfx gs ins ls Hgs Hfl; [cbn in Hfl; discriminate|].
  revert ls Hfl. induction ins as [|i r IHr]; intros ls Hfl.
  - rewrite flat_loose_nil in Hfl. inversion Hfl; subst. reflexivity.
  - rewrite flat_loose_cons in Hfl.
    match type of Hfl with match ?h with _ => _ end = _ => destruct h as [a|] eqn:Eh end; [|discriminate].
    destruct (flat_loose tbl decls (S f) St pfx gs r) as [b|] eqn:Er; [|discriminate].
    specialize (IHr b eq_refl).
    inversion Hfl; subst. rewrite wsum_app, IHr. clear Hfl IHr Er.
    cut (wsum v a = O); [intro Hc; rewrite Hc; reflexivity|].
    revert a Eh.
    intros a Ha. destruct i as [n p u|n u|n ty|p| | |M m body].
    + inversion Ha; subst. cbn [wsum snd fst]. rewrite Hgs. reflexivity.
    + destruct (assoc St decls) as [d|]; [|discriminate].
      destruct (decl_sub_type d n) as [ty|]; [|discriminate].
      destruct (assoc ty tbl) as [body|]; [|discriminate].
      eapply IHf; [exact Hgs|exact Ha].
    + destruct (assoc ty tbl) as [body|]; [|discriminate].
      eapply IHf; [exact Hgs|exact Ha].
    + inversion Ha; subst. cbn [wsum snd fst]. rewrite Hgs. reflexivity.
    + inversion Ha; subst. reflexivity.
    + inversion Ha; subst. reflexivity.
    + eapply IHf; [|exact Ha]. rewrite forallb_snoc, Hgs. reflexivity.
Qed.

(* size_instrs adds up exactly the enabled leaves of flat_loose over the size table *)
Lemma size_instrs_wsum v decls fuel :
  size_table_pure = true ->
  forall St pfx gs ins ls,
    forallb pure_instr ins = true ->
    forallb (gte v) gs = true ->
    flat_loose tbl_size decls fuel St pfx gs ins = Some ls ->
    size_instrs fuel v ins = wsum v ls.
Proof.
  intro Hpure.
  induction fuel as [|f IHf]; intros St pfx gs ins ls Hp Hgs Hfl; [cbn in Hfl; discriminate|].
  revert ls Hp Hfl. induction ins as [|i r IHr]; intros ls Hp Hfl.
  - rewrite flat_loose_nil in Hfl. inversion Hfl; subst. reflexivity.
  - rewrite flat_loose_cons in Hfl. rewrite size_instrs_cons.
    cbn [forallb] in Hp. apply andb_true_iff in Hp as [Hpi Hpr].
    match type of Hfl with match ?h with _ => _ end = _ => destruct h as [a0|] eqn:Eh0 end; [|discriminate].
    destruct (flat_loose tbl_size decls (S f) St pfx gs r) as [b|] eqn:Er; [|discriminate].
    specialize (IHr b Hpr eq_refl). rewrite IHr.
    inversion Hfl; subst. rewrite wsum_app. f_equal. clear Hfl IHr Er. rename Eh0 into Hfl.
    destruct i as [n p u|n u|n ty|p| | |M m body]; cbn [pure_instr] in Hpi; try discriminate.
    + (* SubT *)
      destruct (assoc ty tbl_size) as [body|] eqn:Ea; [|discriminate].
      eapply IHf; [|exact Hgs|exact Hfl].
      eapply pure_assoc; [exact Hpure|exact Ea].
    + (* Prim *)
      inversion Hfl; subst. cbn [wsum snd fst owidth]. rewrite Hgs. lia.
    + inversion Hfl; subst. reflexivity.
    + inversion Hfl; subst. reflexivity.
    + (* Gate *)
      destruct (slippi_Version_gte v M m) eqn:Eg.
      * eapply IHf; [exact Hpi| |exact Hfl].
        rewrite forallb_snoc, Hgs. unfold gte. cbn [fst snd]. rewrite Eg. reflexivity.
      * symmetry. eapply flat_loose_disabled; [|exact Hfl].
        rewrite forallb_snoc. unfold gte at 2. cbn [fst snd]. rewrite Eg. apply andb_false_r.
Qed.

(* reader leaves vs loose leaves: pairwise equal prims and gates give the same byte count at every version *)
Lemma tsize_wsum v (a : list gleaf) (b : list loose_leaf) :
  Nat.eqb (List.length a) (List.length b) = true ->
  forallb (fun p : gleaf * loose_leaf =>
             oprim_eqb (Some (lprim (fst p))) (snd (fst (snd p)))
             && gates_eqb (lgates (fst p)) (snd (snd p))) (combine a b) = true ->
  tsize (leaves_at v a) = wsum v b.
Proof.
  revert b. induction a as [|x a IH]; intros b Hlen Hall; destruct b as [|y b].
  - reflexivity.
  - cbn in Hlen. discriminate.
  - cbn in Hlen. discriminate.
  - cbn [combine forallb fst snd] in Hall.
    apply andb_true_iff in Hall as [Hxy Hall]. apply andb_true_iff in Hxy as [Hp Hg].
    apply gates_eqb_eq in Hg.
    assert (Hlen' : Nat.eqb (List.length a) (List.length b) = true).
    { apply Nat.eqb_eq in Hlen. apply Nat.eqb_eq. cbn [List.length] in Hlen. lia. }
    specialize (IH b Hlen' Hall).
    unfold leaves_at in *. cbn [filter wsum]. unfold enabled at 1. rewrite Hg.
    destruct y as [[py oy] gy]. cbn [fst snd] in *.
    destruct oy as [q|]; [|cbn in Hp; discriminate].
    cbn [oprim_eqb] in Hp. apply prim_eqb_eq in Hp.
    destruct (forallb (gte v) gy).
    + cbn [tsize owidth]. rewrite IH, Hp. reflexivity.
    + rewrite IH. reflexivity.
Qed.

Theorem size_fn_row_size v E :
  same_size E = true -> size_table_pure = true -> size_fn v E = row_size v E.
Proof.
  intros Hss Hpure. unfold same_size in Hss.
  unfold row_size, row_leaves, read_leaves, size_fn.
  destruct (flatten tbl_read_push tbl_mut_decl E) as [a|]; [|discriminate].
  unfold flatten_loose in Hss.
  destruct (assoc E tbl_size) as [body|] eqn:Ea; [|discriminate].
  destruct (flat_loose tbl_size tbl_imm_decl 24 E "" [] body) as [b|] eqn:Efl; [|discriminate].
  apply andb_true_iff in Hss as [Hlen Hall].
  rewrite (tsize_wsum v a b Hlen Hall).
  apply (size_instrs_wsum v tbl_imm_decl 24 Hpure E ""%string [] body b); [|reflexivity|exact Efl].
  eapply pure_assoc; [exact Hpure|exact Ea].
Qed.

(* ------------------------------------------------------------------------------------------------ *)
(* closed instances on the regenerated tables                                                        *)
(* ------------------------------------------------------------------------------------------------ *)

Local Open Scope string_scope.

Lemma same_rw_all : forallb same_rw ["Pre"; "Post"; "Start"; "End"; "Item"] = true.
Proof. vm_compute. reflexivity. Qed.

Lemma same_size_all : forallb same_size ["Pre"; "Post"; "Start"; "End"; "Item"] = true.
Proof. vm_compute. reflexivity. Qed.

Lemma size_table_pure_ok : size_table_pure = true.
Proof. vm_compute. reflexivity. Qed.

Definition frame_structs : list string := ["Pre"; "Post"; "Start"; "End"; "Item"].

Corollary write_row_id_frames v E r :
  In E frame_structs -> List.length r = row_size v E -> write_row v E r = r.
Proof.
  intros Hin. apply write_row_id.
  exact (proj1 (forallb_forall same_rw frame_structs) same_rw_all E Hin).
Qed.

Corollary size_fn_row_size_frames v E :
  In E frame_structs -> size_fn v E = row_size v E.
Proof.
  intros Hin. apply size_fn_row_size; [|exact size_table_pure_ok].
  exact (proj1 (forallb_forall same_size frame_structs) same_size_all E Hin).
Qed.

Print Assumptions write_row_id.
Print Assumptions size_fn_row_size.
Print Assumptions write_row_id_frames.
Print Assumptions size_fn_row_size_frames.
