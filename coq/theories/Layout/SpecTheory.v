(* Agreement between a flattened (regenerated) table and a hand-written spec table of
   (path, primitive, offset in the event, introducing version), and what agreement implies for every
   version and every payload. *)
From Coq Require Import List Arith NArith Lia Bool String ZifyBool ZifyN ZifyNat.
From Coq.Strings Require Import Byte.
From Peppi Require Import Base.Bytes Layout.Syntax Gen.Funs Layout.Sem.
Import ListNotations.
Notation length := (@List.length _) (only parsing).

Record spec_leaf := { spath : string; sprim : prim; soff : nat; ssince : option gate }.

Definition gate_eqb (a b : gate) : bool := (fst a =? fst b)%N && (snd a =? snd b)%N.
Definition ogate_eqb (a b : option gate) : bool :=
  match a, b with None, None => true | Some x, Some y => gate_eqb x y | _, _ => false end.

Lemma gate_eqb_eq a b : gate_eqb a b = true -> a = b.
Proof. destruct a, b; unfold gate_eqb; cbn [fst snd]; intro H. f_equal; lia. Qed.
Lemma ogate_eqb_eq a b : ogate_eqb a b = true -> a = b.
Proof. destruct a, b; cbn; intro H; try discriminate; try reflexivity. f_equal. apply gate_eqb_eq; exact H. Qed.

Definition since_le (a b : option gate) : bool :=
  match a, b with
  | None, _ => true
  | Some _, None => false
  | Some x, Some y => gate_le x y
  end.

Definition osince_ok (v : version) (g : option gate) : bool :=
  match g with None => true | Some g => gte v g end.

Fixpoint agrees_from (off : nat) (prev : option gate) (ls : list gleaf) (sp : list spec_leaf) : bool :=
  match ls, sp with
  | [], [] => true
  | l :: ls', s :: sp' =>
      String.eqb (lpath l) (spath s) && prim_eqb (lprim l) (sprim s) && (soff s =? off)%nat
      && ogate_eqb (since l) (ssince s) && chain_mono (lgates l) && since_le prev (since l)
      && agrees_from (off + width (lprim l)) (since l) ls' sp'
  | _, _ => false
  end.

Fixpoint mem_str (s : string) (l : list string) : bool :=
  match l with [] => false | x :: r => String.eqb s x || mem_str s r end.
Fixpoint nodup_str (l : list string) : bool :=
  match l with [] => true | x :: r => negb (mem_str x r) && nodup_str r end.

(* [hdr]: bytes of the event before the payload the generated reader sees (command byte, frame id,
   and for pre/post the port and follower bytes) *)
Definition agrees (hdr : nat) (ls : list gleaf) (sp : list spec_leaf) : bool :=
  agrees_from hdr None ls sp && nodup_str (map lpath ls).

Lemma since_le_ok v a b : since_le a b = true -> osince_ok v b = true -> osince_ok v a = true.
Proof.
  destruct a as [x|], b as [y|]; cbn; intros H1 H2; try reflexivity; try discriminate.
  eapply gte_mono; eassumption.
Qed.

Lemma later_disabled v off prev ls sp :
  agrees_from off prev ls sp = true -> osince_ok v prev = false ->
  leaves_at v ls = [] /\ forall s, In s sp -> osince_ok v (ssince s) = false.
Proof.
  revert off prev sp. induction ls as [|l ls IH]; intros off prev sp H Hp; destruct sp as [|s sp]; cbn [agrees_from] in H; try discriminate.
  - split; [reflexivity|intros s []].
  - repeat (apply andb_true_iff in H as [H ?]).
    match goal with Hs : since_le prev (since l) = true |- _ => rename Hs into Hle end.
    match goal with Hs : ogate_eqb (since l) (ssince s) = true |- _ => apply ogate_eqb_eq in Hs; rename Hs into Heq end.
    match goal with Hs : chain_mono (lgates l) = true |- _ => rename Hs into Hch end.
    match goal with Hs : agrees_from _ _ ls sp = true |- _ => rename Hs into Hrec end.
    assert (Hl : osince_ok v (since l) = false).
    { destruct (osince_ok v (since l)) eqn:E; [|reflexivity].
      rewrite (since_le_ok v prev (since l) Hle E) in Hp. discriminate. }
    destruct (IH _ _ _ Hrec Hl) as [Hnil Hall].
    split.
    + unfold leaves_at in *. cbn [filter]. rewrite (enabled_iff_since v l Hch).
      unfold since_ok. unfold osince_ok in Hl. rewrite Hl. exact Hnil.
    + intros s' [->|Hin]; [rewrite <- Heq; exact Hl | apply Hall; exact Hin].
Qed.

Lemma mem_str_in s l : mem_str s l = false -> ~ In s l.
Proof.
  induction l as [|x r IH]; cbn; intros H; [tauto|].
  apply orb_false_iff in H as [H1 H2]. intros [->|Hin].
  - rewrite String.eqb_refl in H1. discriminate.
  - apply (IH H2 Hin).
Qed.

Lemma leaves_at_incl v ls p : In p (map lpath (leaves_at v ls)) -> In p (map lpath ls).
Proof.
  unfold leaves_at. intro H. apply in_map_iff in H as [l [<- Hl]]. apply filter_In in Hl as [Hl _].
  apply in_map. exact Hl.
Qed.

(* the main lemma, over the tail of a table: [pay] is what remains of the payload at offset [off] *)
Lemma spec_from v off prev ls sp pay vals rest k s :
  agrees_from off prev ls sp = true -> nodup_str (map lpath ls) = true ->
  dec (leaves_at v ls) pay = Some (vals, rest) ->
  nth_error sp k = Some s ->
  (osince_ok v (ssince s) = true ->
     nth_error (map lpath (leaves_at v ls)) k = Some (spath s) /\
     nth_error vals k = Some (be_dec (firstn (width (sprim s)) (skipn (soff s - off) pay)))) /\
  (osince_ok v (ssince s) = false -> ~ In (spath s) (map lpath (leaves_at v ls))).
Proof.
  revert off prev sp pay vals rest k. induction ls as [|l ls IH]; intros off prev sp pay vals rest k H Hnd Hdec Hk;
    destruct sp as [|s0 sp]; cbn [agrees_from] in H; try discriminate.
  - destruct k; discriminate.
  - repeat (apply andb_true_iff in H as [H ?]).
    match goal with Hs : ogate_eqb (since l) (ssince s0) = true |- _ => apply ogate_eqb_eq in Hs; rename Hs into Heq end.
    match goal with Hs : chain_mono (lgates l) = true |- _ => rename Hs into Hch end.
    match goal with Hs : agrees_from _ _ ls sp = true |- _ => rename Hs into Hrec end.
    match goal with Hs : prim_eqb _ _ = true |- _ => apply prim_eqb_eq in Hs; rename Hs into Hprim end.
    match goal with Hs : (soff s0 =? off)%nat = true |- _ => apply Nat.eqb_eq in Hs; rename Hs into Hoff end.
    apply String.eqb_eq in H. rename H into Hpath.
    cbn [map nodup_str] in Hnd. apply andb_true_iff in Hnd as [Hnotin Hnd].
    apply negb_true_iff in Hnotin.
    assert (Hen : enabled v l = osince_ok v (ssince s0)).
    { rewrite (enabled_iff_since v l Hch). unfold since_ok, osince_ok. rewrite Heq. reflexivity. }
    destruct (osince_ok v (ssince s0)) eqn:E0.
    + (* head enabled *)
      unfold leaves_at in Hdec |- *. cbn [filter] in Hdec |- *. rewrite Hen in Hdec |- *.
      cbn [dec] in Hdec.
      destruct (length pay <? width (lprim l))%nat eqn:El; [discriminate|].
      destruct (dec (filter (enabled v) ls) (skipn (width (lprim l)) pay)) as [[vs' rest']|] eqn:Ed; [|discriminate].
      inversion Hdec; subst vals rest'. clear Hdec.
      destruct k as [|k].
      * cbn in Hk. inversion Hk; subst s. rewrite E0. split; [|discriminate].
        intros _. cbn [map nth_error]. rewrite Hpath, <- Hprim, Hoff, Nat.sub_diag. cbn [skipn]. split; reflexivity.
      * cbn [nth_error] in Hk.
        destruct (IH _ _ _ _ _ _ _ Hrec Hnd Ed Hk) as [Hyes Hno].
        split.
        -- intros Hs. destruct (Hyes Hs) as [Hp Hv]. cbn [map nth_error]. split; [exact Hp|].
           rewrite Hv. rewrite skipn_skipn.
           (* soff s >= off + width: offsets only grow along the table *)
           assert (Hge : (off + width (lprim l) <= soff s)%nat).
           { clear - Hrec Hk. revert Hrec Hk. generalize (off + width (lprim l))%nat as o. generalize (since l) as pv.
             revert k sp. induction ls as [|l' ls' IHl]; intros k sp pv o Hrec Hk; destruct sp as [|s' sp']; cbn [agrees_from] in Hrec; try discriminate.
             - destruct k; discriminate.
             - repeat (apply andb_true_iff in Hrec as [Hrec ?]).
               match goal with Hs : (soff s' =? o)%nat = true |- _ => apply Nat.eqb_eq in Hs; rename Hs into Ho end.
               match goal with Hs : agrees_from _ _ ls' sp' = true |- _ => rename Hs into Hr end.
               destruct k as [|k]; cbn [nth_error] in Hk.
               + inversion Hk; subst. lia.
               + specialize (IHl _ _ _ _ Hr Hk). lia. }
           replace (width (lprim l) + (soff s - (off + width (lprim l))))%nat with (soff s - off)%nat by lia.
           reflexivity.
        -- intros Hs Hin. cbn [map] in Hin. destruct Hin as [Hh|Hin]; [|exact (Hno Hs Hin)].
           (* the head's path equals a later spec path: impossible by NoDup, since spec paths = table paths *)
           assert (Hsp : In (spath s) (map lpath ls)).
           { clear - Hrec Hk. revert Hrec Hk. generalize (off + width (lprim l))%nat as o. generalize (since l) as pv.
             revert k sp. induction ls as [|l' ls' IHl]; intros k sp pv o Hrec Hk; destruct sp as [|s' sp']; cbn [agrees_from] in Hrec; try discriminate.
             - destruct k; discriminate.
             - repeat (apply andb_true_iff in Hrec as [Hrec ?]). apply String.eqb_eq in Hrec.
               match goal with Hs : agrees_from _ _ ls' sp' = true |- _ => rename Hs into Hr end.
               destruct k as [|k]; cbn [nth_error] in Hk.
               + inversion Hk; subst. left. exact Hrec.
               + right. eapply IHl; eassumption. }
           rewrite <- Hh in Hsp. exact (mem_str_in _ _ Hnotin Hsp).
    + (* head disabled: everything after it is disabled too *)
      assert (Hl : osince_ok v (since l) = false) by (rewrite Heq; exact E0).
      destruct (later_disabled v _ _ _ _ Hrec Hl) as [Hnil Hall].
      assert (Hla : leaves_at v (l :: ls) = []).
      { unfold leaves_at in *. cbn [filter]. rewrite Hen. exact Hnil. }
      rewrite Hla. cbn [map].
      assert (Hs : osince_ok v (ssince s) = false).
      { destruct k as [|k]; cbn [nth_error] in Hk.
        - inversion Hk; subst. exact E0.
        - apply Hall. eapply nth_error_In. exact Hk. }
      rewrite Hs. split; [discriminate | intros _ []].
Qed.

(* C03's shape, for any table that agrees with its spec *)
Theorem spec_fields v hdr ls sp payload vals rest k s :
  agrees hdr ls sp = true ->
  dec (leaves_at v ls) payload = Some (vals, rest) ->
  nth_error sp k = Some s ->
  (osince_ok v (ssince s) = true ->
     nth_error (map lpath (leaves_at v ls)) k = Some (spath s) /\
     nth_error vals k = Some (be_dec (firstn (width (sprim s)) (skipn (soff s - hdr) payload)))) /\
  (osince_ok v (ssince s) = false -> ~ In (spath s) (map lpath (leaves_at v ls))).
Proof.
  unfold agrees. intros H. apply andb_true_iff in H as [H1 H2]. intros Hd Hk.
  eapply spec_from; eassumption.
Qed.

(* no leaf outside the spec: the table's paths are exactly the spec's, in order *)
Lemma agrees_paths off prev ls sp : agrees_from off prev ls sp = true -> map lpath ls = map spath sp.
Proof.
  revert off prev sp. induction ls as [|l ls IH]; intros off prev sp H; destruct sp as [|s sp]; cbn [agrees_from] in H; try discriminate.
  - reflexivity.
  - repeat (apply andb_true_iff in H as [H ?]). apply String.eqb_eq in H. cbn [map]. f_equal; [exact H|].
    eapply IH; eassumption.
Qed.

Theorem spec_complete hdr ls sp : agrees hdr ls sp = true -> map lpath ls = map spath sp.
Proof. unfold agrees. intro H. apply andb_true_iff in H as [H _]. eapply agrees_paths; exact H. Qed.
