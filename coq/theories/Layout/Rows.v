(* Row layouts of the five frame-level records, read off the regenerated reader table. *)
From Coq Require Import List NArith String.
From Coq.Strings Require Import Byte.
From Peppi Require Import Base.Bytes Layout.Syntax Gen.Funs Gen.Tables Layout.Sem.
Import ListNotations.

Definition read_leaves (E : string) : list gleaf :=
  match flatten tbl_read_push tbl_mut_decl E with Some l => l | None => [] end.

Definition row_leaves (v : version) (E : string) : list gleaf := leaves_at v (read_leaves E).
Definition row_size (v : version) (E : string) : nat := tsize (row_leaves v E).
Definition null_row (v : version) (E : string) : list byte := repeat x00 (row_size v E).

(* the writer's view of the same records: leaves of the regenerated write table, and the size() functions *)
Definition write_leaves (E : string) : list gleaf :=
  match flatten tbl_write tbl_imm_decl E with Some l => l | None => [] end.

Fixpoint size_instrs (fuel : nat) (v : version) (ins : list instr) {struct fuel} : nat :=
  match fuel with
  | O => O
  | S f =>
    (fix go (ins : list instr) : nat :=
       match ins with
       | [] => O
       | i :: r =>
         (match i with
          | Prim p => width p
          | SubT _ ty => match assoc ty tbl_size with Some body => size_instrs f v body | None => O end
          | Gate M m body => if slippi_Version_gte v M m then size_instrs f v body else O
          | _ => O
          end + go r)%nat
       end) ins
  end.

(* X::size(version) as src/frame/immutable/slippi.rs computes it *)
Definition size_fn (v : version) (E : string) : nat :=
  match assoc E tbl_size with Some body => size_instrs 24 v body | None => O end.

(* X::write(w, version, i): the columns' values at row i, re-encoded field by field in the write table's order *)
Definition write_row (v : version) (E : string) (r : list byte) : list byte :=
  match dec (row_leaves v E) r with
  | Some (vals, _) => enc (leaves_at v (write_leaves E)) vals
  | None => r
  end.
