(* Semantics of the regenerated tables: flattening a struct into gated leaves, which leaves a version
   enables, and the big-endian row codec over a leaf list. Generic theorems (any table, version, bytes). *)
From Coq Require Import List Arith NArith Lia Bool String ZifyBool ZifyN ZifyNat.
From Coq.Strings Require Import Byte.
From Peppi Require Import Base.Bytes Layout.Syntax Gen.Funs.
Import ListNotations.
Local Open Scope N_scope.
Notation length := (@List.length _) (only parsing).

Definition gte (v : version) (g : gate) : bool := slippi_Version_gte v (fst g) (snd g).

(* ---- lookups ---- *)
Fixpoint assoc {A} (k : string) (l : list (string * A)) : option A :=
  match l with
  | [] => None
  | (k', a) :: r => if String.eqb k k' then Some a else assoc k r
  end.

Definition decl_sub_type (d : list decl_field) (name : string) : option string :=
  let fix go l :=
    match l with
    | [] => None
    | DSub n ty _ :: r => if String.eqb n name then Some ty else go r
    | _ :: r => go r
    end in go d.

(* a leaf of the flattened struct: dotted path, primitive, enclosing gates (outermost first) *)
Record gleaf := { lpath : string; lprim : prim; lgates : list gate }.

Definition dot (pfx n : string) : string := (pfx ++ n)%string.

(* flatten the instruction list of struct [S]; nested structs are resolved through the struct declarations.
   [fuel] bounds gate + struct nesting (at most 7 + 2 in the generated code; 24 is ample and checked: a result
   of [None] means an unknown struct, an unknown field or exhausted fuel). *)
Fixpoint flat_instrs (tbl : table) (decls : list (string * list decl_field)) (fuel : nat)
         (S : string) (pfx : string) (gs : list gate) (ins : list instr) {struct fuel}
  : option (list gleaf) :=
  match fuel with
  | O => None
  | S fuel' =>
    (fix go (ins : list instr) {struct ins} : option (list gleaf) :=
       match ins with
       | [] => Some []
       | i :: r =>
         let here :=
           match i with
           | Fld n (Some p) _ => Some [{| lpath := dot pfx n; lprim := p; lgates := gs |}]
           | Fld n None _ => None
           | Sub n _ =>
             match assoc S decls with
             | Some d =>
               match decl_sub_type d n with
               | Some ty =>
                 match assoc ty tbl with
                 | Some body => flat_instrs tbl decls fuel' ty (dot pfx (n ++ ".")) gs body
                 | None => None
                 end
               | None => None
               end
             | None => None
             end
           | SubT _ _ | Prim _ => None
           | ValidityTrue | ValidityFalse => Some []
           | Gate M m body => flat_instrs tbl decls fuel' S pfx (gs ++ [(M, m)]) body
           end in
         match here, go r with
         | Some a, Some b => Some (a ++ b)
         | _, _ => None
         end
       end) ins
  end.

Definition flatten (tbl : table) (decls : list (string * list decl_field)) (S : string) : option (list gleaf) :=
  match assoc S tbl with
  | Some body => flat_instrs tbl decls 24 S "" [] body
  | None => None
  end.

Definition enabled (v : version) (l : gleaf) : bool := forallb (gte v) (lgates l).

Definition leaves_at (v : version) (ls : list gleaf) : list gleaf := filter (enabled v) ls.

(* ---- the "since" view: a leaf's own introduction version is its innermost gate ---- *)
Definition since (l : gleaf) : option gate := last (map Some (lgates l)) None.

Definition gate_le (a b : gate) : bool :=
  (fst a <? fst b) || ((fst a =? fst b) && (snd a <=? snd b)).

Fixpoint chain_mono (gs : list gate) : bool :=
  match gs with
  | [] => true
  | a :: r => match r with [] => true | b :: _ => gate_le a b && chain_mono r end
  end.

Definition since_ok (v : version) (l : gleaf) : bool :=
  match since l with None => true | Some g => gte v g end.

Lemma gte_mono v a b : gate_le a b = true -> gte v b = true -> gte v a = true.
Proof.
  destruct v as [[x y] z], a as [M1 m1], b as [M2 m2].
  unfold gate_le, gte, slippi_Version_gte, v0, v1; cbn [fst snd]. lia.
Qed.

Lemma chain_all v gs :
  chain_mono gs = true -> forallb (gte v) gs = match last (map Some gs) None with None => true | Some g => gte v g end.
Proof.
  induction gs as [|a r IH]; intro H; [reflexivity|].
  destruct r as [|b r'].
  - cbn. rewrite andb_true_r. reflexivity.
  - cbn [chain_mono] in H. apply andb_true_iff in H as [Hab Hr].
    specialize (IH Hr).
    change (forallb (gte v) (a :: b :: r')) with (gte v a && forallb (gte v) (b :: r')).
    rewrite IH.
    change (last (map Some (a :: b :: r')) None) with (last (map Some (b :: r')) None).
    destruct (last (map Some (b :: r')) None) as [g|] eqn:E.
    + destruct (gte v g) eqn:Eg; [|apply andb_false_r].
      rewrite andb_true_r.
      (* gte v g -> gte v b -> gte v a : g is reached from b through the monotone chain *)
      assert (Hb : gte v b = true).
      { clear - Hr Eg E. revert b g Hr E Eg. induction r' as [|c r'' IHr]; intros b g Hr E Eg.
        - cbn in E. inversion E; subst. exact Eg.
        - cbn [chain_mono] in Hr. apply andb_true_iff in Hr as [Hbc Hr'].
          apply (gte_mono v b c Hbc). apply (IHr c g Hr'); [exact E|exact Eg]. }
      apply (gte_mono v a b Hab Hb).
    + exfalso. clear - E. revert b E. induction r' as [|c r'' IHr]; intros b E; cbn in E; [discriminate|].
      apply (IHr c). exact E.
Qed.

(* nested gates with non-decreasing thresholds: a leaf is enabled iff the version reaches its own since *)
Theorem enabled_iff_since v l : chain_mono (lgates l) = true -> enabled v l = since_ok v l.
Proof. intro H. unfold enabled, since_ok, since. apply chain_all. exact H. Qed.

(* ---- row codec over a list of (path, prim) leaves ---- *)
Fixpoint dec (ls : list gleaf) (bs : list byte) : option (list N * list byte) :=
  match ls with
  | [] => Some ([], bs)
  | l :: r =>
      let w := width (lprim l) in
      if (length bs <? w)%nat then None
      else match dec r (skipn w bs) with
           | Some (vs, rest) => Some (be_dec (firstn w bs) :: vs, rest)
           | None => None
           end
  end.

Fixpoint enc (ls : list gleaf) (vs : list N) : list byte :=
  match ls, vs with
  | l :: r, x :: xs => be_enc (width (lprim l)) x ++ enc r xs
  | _, _ => []
  end.

Fixpoint tsize (ls : list gleaf) : nat :=
  match ls with [] => O | l :: r => (width (lprim l) + tsize r)%nat end.

Theorem enc_dec ls bs vs rest :
  dec ls bs = Some (vs, rest) -> enc ls vs ++ rest = bs.
Proof.
  revert bs vs rest. induction ls as [|l r IH]; intros bs vs rest H.
  - cbn in H. inversion H; subst. reflexivity.
  - cbn [dec] in H. destruct (Nat.ltb_spec (length bs) (width (lprim l))) as [Hlt|Hge]; [discriminate|].
    destruct (dec r (skipn (width (lprim l)) bs)) as [[vs' rest']|] eqn:E; [|discriminate].
    inversion H; subst. cbn [enc].
    rewrite <- app_assoc. rewrite (IH _ _ _ E).
    replace (width (lprim l)) with (length (firstn (width (lprim l)) bs)) at 1
      by (rewrite firstn_length; lia).
    rewrite be_enc_dec. apply firstn_skipn.
Qed.

Theorem dec_succeeds_iff ls bs :
  (exists r, dec ls bs = Some r) <-> (tsize ls <= length bs)%nat.
Proof.
  revert bs. induction ls as [|l r IH]; intros bs; cbn [dec tsize].
  - split; [lia | eauto].
  - destruct (Nat.ltb_spec (length bs) (width (lprim l))) as [Hlt|Hge].
    + split; [intros [x Hx]; discriminate | lia].
    + specialize (IH (skipn (width (lprim l)) bs)). rewrite skipn_length in IH.
      split.
      * intros [x Hx]. destruct (dec r (skipn (width (lprim l)) bs)) eqn:E; [|destruct x; discriminate].
        assert (tsize r <= length bs - width (lprim l))%nat by (apply IH; eauto). lia.
      * intros H. assert (Hx : exists x, dec r (skipn (width (lprim l)) bs) = Some x) by (apply IH; lia).
        destruct Hx as [[vs rest] Hx]. rewrite Hx. eauto.
Qed.

Definition fits (p : prim) (x : N) : Prop := x < 256 ^ N.of_nat (width p).

Theorem dec_enc ls vs rest :
  Forall2 (fun l x => fits (lprim l) x) ls vs -> dec ls (enc ls vs ++ rest) = Some (vs, rest).
Proof.
  intros H. induction H as [|l x ls vs Hx H IH]; [reflexivity|].
  cbn [enc dec] in *. rewrite <- app_assoc.
  rewrite app_length, length_be_enc.
  destruct (Nat.ltb_spec (width (lprim l) + length (enc ls vs ++ rest)) (width (lprim l))) as [?|_]; [lia|].
  rewrite skipn_app, length_be_enc, Nat.sub_diag.
  rewrite skipn_all2 by (rewrite length_be_enc; lia). cbn [skipn app].
  rewrite IH.
  rewrite firstn_app, length_be_enc, Nat.sub_diag. cbn [firstn]. rewrite app_nil_r.
  rewrite firstn_all2 by (rewrite length_be_enc; lia).
  rewrite be_dec_enc by exact Hx. reflexivity.
Qed.

(* extra payload bytes after the known layout never change the decoded values (C08) *)
Theorem dec_ignores_suffix ls bs vs rest extra :
  dec ls bs = Some (vs, rest) -> dec ls (bs ++ extra) = Some (vs, rest ++ extra).
Proof.
  revert bs vs rest. induction ls as [|l r IH]; intros bs vs rest H.
  - cbn in *. inversion H; subst. reflexivity.
  - cbn [dec] in *. destruct (Nat.ltb_spec (length bs) (width (lprim l))) as [Hlt|Hge]; [discriminate|].
    destruct (dec r (skipn (width (lprim l)) bs)) as [[vs' rest']|] eqn:E; [|discriminate].
    inversion H; subst. rewrite app_length.
    destruct (Nat.ltb_spec (length bs + length extra) (width (lprim l))) as [?|_]; [lia|].
    rewrite skipn_app. replace (width (lprim l) - length bs)%nat with O by lia. cbn [skipn].
    rewrite (IH _ _ _ E). rewrite firstn_app. replace (width (lprim l) - length bs)%nat with O by lia.
    cbn [firstn]. rewrite app_nil_r. reflexivity.
Qed.

Lemma dec_length ls bs vs rest : dec ls bs = Some (vs, rest) -> length vs = length ls.
Proof.
  revert bs vs rest. induction ls as [|l r IH]; intros bs vs rest H; cbn [dec] in H.
  - inversion H. reflexivity.
  - destruct (length bs <? width (lprim l))%nat; [discriminate|].
    destruct (dec r _) as [[vs' rest']|] eqn:E; [|discriminate]. inversion H; subst.
    cbn. f_equal. eapply IH. exact E.
Qed.

(* offset of the k-th leaf in a leaf list = sum of the widths before it; value = BE bytes at that offset *)
Definition offset (ls : list gleaf) (k : nat) : nat := tsize (firstn k ls).

Theorem dec_nth ls bs vs rest k l :
  dec ls bs = Some (vs, rest) -> nth_error ls k = Some l ->
  nth_error vs k = Some (be_dec (firstn (width (lprim l)) (skipn (offset ls k) bs))).
Proof.
  revert bs vs rest k. induction ls as [|l0 r IH]; intros bs vs rest k H Hk.
  - destruct k; discriminate.
  - cbn [dec] in H. destruct (length bs <? width (lprim l0))%nat; [discriminate|].
    destruct (dec r (skipn (width (lprim l0)) bs)) as [[vs' rest']|] eqn:E; [|discriminate].
    inversion H; subst. destruct k as [|k].
    + cbn in Hk. inversion Hk; subst. reflexivity.
    + cbn [nth_error] in *. unfold offset. cbn [firstn tsize].
      rewrite (IH _ _ _ _ E Hk). unfold offset. rewrite skipn_skipn. reflexivity.
Qed.
