(* rust2coq FAILED: src/io/peppi/ser.rs fn write (entry metadata.json): the value serialised is not a field path taken AS IS: `.unwrap_or_default(..)` can turn the value into something else (a None into a default, ..): & game . metadata . unwrap_or_default ( ) *)
Fail Definition translator_failed := 0.
Definition translator_failed : False := I.
