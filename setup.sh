#!/bin/sh
# Build the framework from files on disk only (offline): translate, compile the Coq development,
# extract and build the model runner, build the Rust harness against /repo's working tree.
set -e
cd "$(dirname "$0")"
export CARGO_NET_OFFLINE=true
mkdir -p .work evidence replays
python3 tools/rust2coq.py || true
(cd coq && ./Makefile.gen.sh && timeout 3000 make -j16) 
./modelrun/build.sh
(cd harness && cargo build --offline && cargo build --offline --release)
echo "setup done"
