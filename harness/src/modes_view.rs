use std::fmt::Write as _;
use std::io;

use arrow2::array::{Array, ListArray, PrimitiveArray, StructArray};
use arrow2::datatypes::DataType;
use peppi::frame::{immutable, transpose};
use peppi::game::{immutable::Game, port_occupancy, Game as GameTrait};
use peppi::io::slippi;

use crate::dump::*;

fn o<T: Bits>(v: &mut Vec<u64>, x: Option<T>) {
	if let Some(x) = x {
		v.push(x.bits())
	}
}

fn t_pre(s: &transpose::Pre) -> Vec<u64> {
	let mut v = vec![
		s.random_seed.bits(),
		s.state.bits(),
		s.position.x.bits(),
		s.position.y.bits(),
		s.direction.bits(),
		s.joystick.x.bits(),
		s.joystick.y.bits(),
		s.cstick.x.bits(),
		s.cstick.y.bits(),
		s.triggers.bits(),
		s.buttons.bits(),
		s.buttons_physical.bits(),
		s.triggers_physical.l.bits(),
		s.triggers_physical.r.bits(),
	];
	o(&mut v, s.raw_analog_x);
	o(&mut v, s.percent);
	o(&mut v, s.raw_analog_y);
	v
}

fn t_post(s: &transpose::Post) -> Vec<u64> {
	let mut v = vec![
		s.character.bits(),
		s.state.bits(),
		s.position.x.bits(),
		s.position.y.bits(),
		s.direction.bits(),
		s.percent.bits(),
		s.shield.bits(),
		s.last_attack_landed.bits(),
		s.combo_count.bits(),
		s.last_hit_by.bits(),
		s.stocks.bits(),
	];
	o(&mut v, s.state_age);
	if let Some(f) = &s.state_flags {
		v.extend([f.0.bits(), f.1.bits(), f.2.bits(), f.3.bits(), f.4.bits()]);
	}
	o(&mut v, s.misc_as);
	o(&mut v, s.airborne);
	o(&mut v, s.ground);
	o(&mut v, s.jumps);
	o(&mut v, s.l_cancel);
	o(&mut v, s.hurtbox_state);
	if let Some(x) = &s.velocities {
		v.extend([
			x.self_x_air.bits(),
			x.self_y.bits(),
			x.knockback_x.bits(),
			x.knockback_y.bits(),
			x.self_x_ground.bits(),
		]);
	}
	o(&mut v, s.hitlag);
	o(&mut v, s.animation_index);
	o(&mut v, s.last_hit_by_instance);
	o(&mut v, s.instance_id);
	v
}

fn t_item(s: &transpose::Item) -> Vec<u64> {
	let mut v = vec![
		s.r#type.bits(),
		s.state.bits(),
		s.direction.bits(),
		s.velocity.x.bits(),
		s.velocity.y.bits(),
		s.position.x.bits(),
		s.position.y.bits(),
		s.damage.bits(),
		s.timer.bits(),
		s.id.bits(),
	];
	if let Some(m) = &s.misc {
		v.extend([m.0.bits(), m.1.bits(), m.2.bits(), m.3.bits()]);
	}
	o(&mut v, s.owner);
	o(&mut v, s.instance_id);
	v
}

fn js(v: &[u64]) -> String {
	v.iter().map(|x| x.to_string()).collect::<Vec<_>>().join(",")
}

pub fn dump_tframe(out: &mut String, i: usize, f: &transpose::Frame) {
	writeln!(out, "f[{}].id={}", i, f.id).unwrap();
	for (k, p) in f.ports.iter().enumerate() {
		writeln!(out, "f[{}].port[{}].port={}", i, k, p.port as u8).unwrap();
		writeln!(out, "f[{}].port[{}].leader.pre={}", i, k, js(&t_pre(&p.leader.pre))).unwrap();
		writeln!(out, "f[{}].port[{}].leader.post={}", i, k, js(&t_post(&p.leader.post))).unwrap();
		match &p.follower {
			None => writeln!(out, "f[{}].port[{}].follower=none", i, k).unwrap(),
			Some(d) => {
				writeln!(out, "f[{}].port[{}].follower.pre={}", i, k, js(&t_pre(&d.pre))).unwrap();
				writeln!(out, "f[{}].port[{}].follower.post={}", i, k, js(&t_post(&d.post))).unwrap();
			}
		}
	}
	match &f.start {
		None => writeln!(out, "f[{}].start=none", i).unwrap(),
		Some(s) => {
			let mut v = vec![s.random_seed.bits()];
			o(&mut v, s.scene_frame_counter);
			writeln!(out, "f[{}].start={}", i, js(&v)).unwrap();
		}
	}
	match &f.end {
		None => writeln!(out, "f[{}].end=none", i).unwrap(),
		Some(s) => {
			let mut v = vec![];
			o(&mut v, s.latest_finalized_frame);
			writeln!(out, "f[{}].end={}", i, js(&v)).unwrap();
		}
	}
	match &f.items {
		None => writeln!(out, "f[{}].items=none", i).unwrap(),
		Some(items) => {
			writeln!(out, "f[{}].items.len={}", i, items.len()).unwrap();
			for (j, it) in items.iter().enumerate() {
				writeln!(out, "f[{}].item[{}]={}", i, j, js(&t_item(it))).unwrap();
			}
		}
	}
}

// view: <slp hex> <mode i|m>: i = immutable Game::frame(i) for all i after a one-shot read;
// m = the in-progress ParseState::frame(i) for every completed frame after every event
pub fn m_view(f: &[String]) -> String {
	let data = unhex(&f[0]);
	let mut out = String::new();
	if f[1] == "i" {
		let g = match slippi::read(io::Cursor::new(&data), None) {
			Ok(g) => g,
			Err(_) => return "ERR\n".to_string(),
		};
		writeln!(out, "OK").unwrap();
		crate::modes::dump_frames_imm(&mut out, &g.frames);
		for i in 0..g.len() {
			dump_tframe(&mut out, i, &g.frame(i));
		}
	} else {
		use slippi::de::{parse_event, parse_header, parse_start};
		let mut r = io::Cursor::new(&data);
		let raw_len = match parse_header(&mut r, None) {
			Ok(n) => n as usize,
			Err(_) => return "ERR\n".to_string(),
		};
		let mut st = match parse_start(&mut r, None) {
			Ok(s) => s,
			Err(_) => return "ERR\n".to_string(),
		};
		writeln!(out, "OK").unwrap();
		let mut n = 0;
		while st.bytes_read() < raw_len {
			match parse_event(&mut r, &mut st, None) {
				Ok(code) => {
					// number of completed frames: all but the last row while it may still be open
					let len = st.frames().len();
					let ver = st.start().slippi.version;
					let complete = if code == 0x3C { len } else { len.saturating_sub(1) };
					let _ = ver;
					writeln!(out, "ev[{}]={} len={} complete={}", n, code, len, complete).unwrap();
					if code == 0x3C || code == 0x3A || code == 0x37 {
						let mut d = String::new();
						crate::modes::dump_frames_mut(&mut d, st.frames());
						for l in d.lines() {
							writeln!(out, "  s[{}] {}", n, l).unwrap();
						}
						for i in 0..complete {
							let mut d = String::new();
							dump_tframe(&mut d, i, &st.frame(i));
							for l in d.lines() {
								writeln!(out, "  v[{}] {}", n, l).unwrap();
							}
						}
					}
					n += 1;
					if code == 0x39 {
						break;
					}
				}
				Err(_) => {
					writeln!(out, "ev[{}]=ERR", n).unwrap();
					break;
				}
			}
		}
	}
	out
}

fn tyname(t: &DataType) -> String {
	match t {
		DataType::Int8 => "i8".into(),
		DataType::UInt8 => "u8".into(),
		DataType::Int16 => "i16".into(),
		DataType::UInt16 => "u16".into(),
		DataType::Int32 => "i32".into(),
		DataType::UInt32 => "u32".into(),
		DataType::Float32 => "f32".into(),
		DataType::Struct(_) => "struct".into(),
		DataType::List(_) => "list".into(),
		x => format!("other:{:?}", x),
	}
}

fn prim_vals<T: arrow2::types::NativeType + Bits>(a: &dyn Array) -> Vec<u64> {
	a.as_any()
		.downcast_ref::<PrimitiveArray<T>>()
		.unwrap()
		.values()
		.iter()
		.map(|x| x.bits())
		.collect()
}

fn walk(out: &mut String, path: &str, a: &dyn Array) {
	let t = a.data_type();
	match t {
		DataType::Struct(fields) => {
			let sa = a.as_any().downcast_ref::<StructArray>().unwrap();
			let val = sa
				.validity()
				.map(|b| format!("[{}]", b.iter().map(|x| if x { '1' } else { '0' }).collect::<String>()))
				.unwrap_or("none".to_string());
			writeln!(
				out,
				"A {} struct len={} fields={} nullable={} validity={}",
				path,
				sa.len(),
				fields.iter().map(|f| f.name.clone()).collect::<Vec<_>>().join(","),
				fields.iter().map(|f| if f.is_nullable { '1' } else { '0' }).collect::<String>(),
				val
			)
			.unwrap();
			for (f, v) in fields.iter().zip(sa.values().iter()) {
				walk(out, &format!("{}/{}", path, f.name), v.as_ref());
			}
		}
		DataType::List(inner) => {
			let la = a.as_any().downcast_ref::<ListArray<i32>>().unwrap();
			writeln!(
				out,
				"A {} list len={} inner={} offsets={}",
				path,
				la.len(),
				inner.name,
				la.offsets().buffer().iter().map(|x| x.to_string()).collect::<Vec<_>>().join(",")
			)
			.unwrap();
			walk(out, &format!("{}/[{}]", path, inner.name), la.values().as_ref());
		}
		_ => {
			let vals = match t {
				DataType::Int8 => prim_vals::<i8>(a),
				DataType::UInt8 => prim_vals::<u8>(a),
				DataType::Int16 => prim_vals::<i16>(a),
				DataType::UInt16 => prim_vals::<u16>(a),
				DataType::Int32 => prim_vals::<i32>(a),
				DataType::UInt32 => prim_vals::<u32>(a),
				DataType::Float32 => prim_vals::<f32>(a),
				_ => vec![],
			};
			writeln!(out, "A {} {} len={} vals={}", path, tyname(t), a.len(), js(&vals)).unwrap();
		}
	}
}

// arrow: <slp hex>
pub fn m_arrow(f: &[String]) -> String {
	let data = unhex(&f[0]);
	let mut out = String::new();
	let g = match slippi::read(io::Cursor::new(&data), None) {
		Ok(g) => g,
		Err(_) => return "ERR\n".to_string(),
	};
	writeln!(out, "OK").unwrap();
	crate::modes::dump_frames_imm(&mut out, &g.frames);
	let ver = g.start.slippi.version;
	let ports = port_occupancy(&g.start);
	let Game {
		start,
		end,
		frames,
		metadata,
		gecko_codes,
		hash,
		quirks,
	} = g;
	let sa = frames.into_struct_array(ver, &ports);
	writeln!(out, "arrow=OK").unwrap();
	walk(&mut out, "frame", &sa);
	let back = immutable::Frame::from_struct_array(sa, ver);
	let g2 = Game {
		start,
		end,
		frames: back,
		metadata,
		gecko_codes,
		hash,
		quirks,
	};
	let mut buf = Vec::new();
	match slippi::write(&mut buf, &g2) {
		Ok(()) => writeln!(out, "back_identical={}", (buf == data) as u8).unwrap(),
		Err(_) => writeln!(out, "back=ERR").unwrap(),
	}
	out
}
