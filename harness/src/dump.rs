// Canonical, line-based observation of peppi values. Floats are bit patterns, strings are hex,
// signed integers are printed as their unsigned two's-complement pattern of the column width.
use std::fmt::Write as _;

pub fn hex(b: &[u8]) -> String {
	let mut s = String::with_capacity(b.len() * 2);
	for x in b {
		write!(s, "{:02x}", x).unwrap();
	}
	s
}

pub fn unhex(s: &str) -> Vec<u8> {
	if s == "-" {
		return vec![];
	}
	let b = s.as_bytes();
	assert!(b.len() % 2 == 0, "odd hex");
	(0..b.len() / 2)
		.map(|i| u8::from_str_radix(std::str::from_utf8(&b[2 * i..2 * i + 2]).unwrap(), 16).unwrap())
		.collect()
}

pub trait Bits: Copy {
	fn bits(self) -> u64;
}
impl Bits for u8 {
	fn bits(self) -> u64 {
		self as u64
	}
}
impl Bits for i8 {
	fn bits(self) -> u64 {
		(self as u8) as u64
	}
}
impl Bits for u16 {
	fn bits(self) -> u64 {
		self as u64
	}
}
impl Bits for i16 {
	fn bits(self) -> u64 {
		(self as u16) as u64
	}
}
impl Bits for u32 {
	fn bits(self) -> u64 {
		self as u64
	}
}
impl Bits for i32 {
	fn bits(self) -> u64 {
		(self as u32) as u64
	}
}
impl Bits for f32 {
	fn bits(self) -> u64 {
		self.to_bits() as u64
	}
}

pub type Cols = Vec<(String, Vec<u64>)>;

#[macro_export]
macro_rules! prim {
	($out:expr, $name:expr, $col:expr) => {
		$out.push((
			$name.to_string(),
			$col.values().iter().map(|x| $crate::dump::Bits::bits(*x)).collect::<Vec<u64>>(),
		))
	};
}
#[macro_export]
macro_rules! oprim {
	($out:expr, $name:expr, $col:expr) => {
		if let Some(c) = &$col {
			$crate::prim!($out, $name, c)
		}
	};
}
#[macro_export]
macro_rules! d_xy {
	($out:expr, $pfx:expr, $s:expr) => {{
		let s = &$s;
		$crate::prim!($out, format!("{}.x", $pfx), s.x);
		$crate::prim!($out, format!("{}.y", $pfx), s.y);
	}};
}
#[macro_export]
macro_rules! d_pre {
	($out:expr, $s:expr) => {{
		let s = &$s;
		$crate::prim!($out, "random_seed", s.random_seed);
		$crate::prim!($out, "state", s.state);
		$crate::d_xy!($out, "position", s.position);
		$crate::prim!($out, "direction", s.direction);
		$crate::d_xy!($out, "joystick", s.joystick);
		$crate::d_xy!($out, "cstick", s.cstick);
		$crate::prim!($out, "triggers", s.triggers);
		$crate::prim!($out, "buttons", s.buttons);
		$crate::prim!($out, "buttons_physical", s.buttons_physical);
		$crate::prim!($out, "triggers_physical.l", s.triggers_physical.l);
		$crate::prim!($out, "triggers_physical.r", s.triggers_physical.r);
		$crate::oprim!($out, "raw_analog_x", s.raw_analog_x);
		$crate::oprim!($out, "percent", s.percent);
		$crate::oprim!($out, "raw_analog_y", s.raw_analog_y);
	}};
}
#[macro_export]
macro_rules! d_post {
	($out:expr, $s:expr) => {{
		let s = &$s;
		$crate::prim!($out, "character", s.character);
		$crate::prim!($out, "state", s.state);
		$crate::d_xy!($out, "position", s.position);
		$crate::prim!($out, "direction", s.direction);
		$crate::prim!($out, "percent", s.percent);
		$crate::prim!($out, "shield", s.shield);
		$crate::prim!($out, "last_attack_landed", s.last_attack_landed);
		$crate::prim!($out, "combo_count", s.combo_count);
		$crate::prim!($out, "last_hit_by", s.last_hit_by);
		$crate::prim!($out, "stocks", s.stocks);
		$crate::oprim!($out, "state_age", s.state_age);
		if let Some(f) = &s.state_flags {
			$crate::prim!($out, "state_flags.0", f.0);
			$crate::prim!($out, "state_flags.1", f.1);
			$crate::prim!($out, "state_flags.2", f.2);
			$crate::prim!($out, "state_flags.3", f.3);
			$crate::prim!($out, "state_flags.4", f.4);
		}
		$crate::oprim!($out, "misc_as", s.misc_as);
		$crate::oprim!($out, "airborne", s.airborne);
		$crate::oprim!($out, "ground", s.ground);
		$crate::oprim!($out, "jumps", s.jumps);
		$crate::oprim!($out, "l_cancel", s.l_cancel);
		$crate::oprim!($out, "hurtbox_state", s.hurtbox_state);
		if let Some(v) = &s.velocities {
			$crate::prim!($out, "velocities.self_x_air", v.self_x_air);
			$crate::prim!($out, "velocities.self_y", v.self_y);
			$crate::prim!($out, "velocities.knockback_x", v.knockback_x);
			$crate::prim!($out, "velocities.knockback_y", v.knockback_y);
			$crate::prim!($out, "velocities.self_x_ground", v.self_x_ground);
		}
		$crate::oprim!($out, "hitlag", s.hitlag);
		$crate::oprim!($out, "animation_index", s.animation_index);
		$crate::oprim!($out, "last_hit_by_instance", s.last_hit_by_instance);
		$crate::oprim!($out, "instance_id", s.instance_id);
	}};
}
#[macro_export]
macro_rules! d_start {
	($out:expr, $s:expr) => {{
		let s = &$s;
		$crate::prim!($out, "random_seed", s.random_seed);
		$crate::oprim!($out, "scene_frame_counter", s.scene_frame_counter);
	}};
}
#[macro_export]
macro_rules! d_end {
	($out:expr, $s:expr) => {{
		let s = &$s;
		$crate::oprim!($out, "latest_finalized_frame", s.latest_finalized_frame);
	}};
}
#[macro_export]
macro_rules! d_item {
	($out:expr, $s:expr) => {{
		let s = &$s;
		$crate::prim!($out, "type", s.r#type);
		$crate::prim!($out, "state", s.state);
		$crate::prim!($out, "direction", s.direction);
		$crate::d_xy!($out, "velocity", s.velocity);
		$crate::d_xy!($out, "position", s.position);
		$crate::prim!($out, "damage", s.damage);
		$crate::prim!($out, "timer", s.timer);
		$crate::prim!($out, "id", s.id);
		if let Some(m) = &s.misc {
			$crate::prim!($out, "misc.0", m.0);
			$crate::prim!($out, "misc.1", m.1);
			$crate::prim!($out, "misc.2", m.2);
			$crate::prim!($out, "misc.3", m.3);
		}
		$crate::oprim!($out, "owner", s.owner);
		$crate::oprim!($out, "instance_id", s.instance_id);
	}};
}

pub fn print_cols(out: &mut String, label: &str, cols: &Cols) {
	let names: Vec<&str> = cols.iter().map(|c| c.0.as_str()).collect();
	let lens: Vec<usize> = cols.iter().map(|c| c.1.len()).collect();
	let n = lens.iter().copied().max().unwrap_or(0);
	let even = lens.iter().all(|l| *l == n);
	writeln!(out, "{}.cols={}", label, names.join(",")).unwrap();
	if !even {
		writeln!(
			out,
			"{}.UNEVEN={}",
			label,
			lens.iter().map(|l| l.to_string()).collect::<Vec<_>>().join(",")
		)
		.unwrap();
		return;
	}
	writeln!(out, "{}.rows={}", label, n).unwrap();
	for i in 0..n {
		let vals: Vec<String> = cols.iter().map(|c| c.1[i].to_string()).collect();
		writeln!(out, "{}[{}]={}", label, i, vals.join(",")).unwrap();
	}
}

// canonical JSON
pub fn cjson(v: &serde_json::Value, out: &mut String) {
	use serde_json::Value::*;
	match v {
		Null => out.push_str("null"),
		Bool(b) => out.push_str(if *b { "true" } else { "false" }),
		Number(n) => {
			if let Some(i) = n.as_i64() {
				write!(out, "{}", i).unwrap()
			} else if let Some(u) = n.as_u64() {
				write!(out, "{}", u).unwrap()
			} else {
				let f = n.as_f64().unwrap();
				write!(out, "f{}", (f as f32).to_bits()).unwrap()
			}
		}
		String(s) => {
			out.push('"');
			out.push_str(&hex(s.as_bytes()));
			out.push('"');
		}
		Array(a) => {
			out.push('[');
			for (i, x) in a.iter().enumerate() {
				if i > 0 {
					out.push(',');
				}
				cjson(x, out);
			}
			out.push(']');
		}
		Object(m) => {
			out.push('{');
			for (i, (k, x)) in m.iter().enumerate() {
				if i > 0 {
					out.push(',');
				}
				out.push('"');
				out.push_str(&hex(k.as_bytes()));
				out.push_str("\":");
				cjson(x, out);
			}
			out.push('}');
		}
	}
}

pub fn cjson_s(v: &serde_json::Value) -> String {
	let mut s = String::new();
	cjson(v, &mut s);
	s
}
