use std::fmt::Write as _;
use std::io::{self, Read, Seek, SeekFrom};

use arrow2::array::{MutableArray, PrimitiveArray};
use arrow2::io::ipc::write::Compression;
use peppi::frame::{immutable, mutable, Rollbacks};
use peppi::game::{self, immutable::Game, shift_jis::MeleeString, Game as GameTrait};
use peppi::io::{peppi as ppi, slippi};

use crate::dump::*;
use crate::{d_end, d_item, d_post, d_pre, d_start};

// ---------------------------------------------------------------------------------------------
// A reader that fragments reads and can inject a failure.
pub struct FragReader {
	data: Vec<u8>,
	pos: usize,
	chunks: Vec<usize>,
	k: usize,
	fail_at: Option<usize>,
	pub calls: usize,
}

impl FragReader {
	pub fn new(data: Vec<u8>, chunks: Vec<usize>, fail_at: Option<usize>) -> Self {
		FragReader {
			data,
			pos: 0,
			chunks,
			k: 0,
			fail_at,
			calls: 0,
		}
	}
	pub fn consumed(&self) -> usize {
		self.pos
	}
}

impl Read for FragReader {
	fn read(&mut self, buf: &mut [u8]) -> io::Result<usize> {
		self.calls += 1;
		if Some(self.calls) == self.fail_at {
			return Err(io::Error::new(io::ErrorKind::Other, "injected fault"));
		}
		if self.pos >= self.data.len() {
			// at or past the end (a seek may go past it, as with a file): end of stream
			return Ok(0);
		}
		let mut n = buf.len().min(self.data.len() - self.pos);
		if !self.chunks.is_empty() && !buf.is_empty() {
			let c = self.chunks[self.k % self.chunks.len()];
			self.k += 1;
			if c > 0 {
				n = n.min(c);
			}
		}
		buf[..n].copy_from_slice(&self.data[self.pos..self.pos + n]);
		self.pos += n;
		Ok(n)
	}
}

impl Seek for FragReader {
	fn seek(&mut self, pos: SeekFrom) -> io::Result<u64> {
		let np: i128 = match pos {
			SeekFrom::Start(p) => p as i128,
			SeekFrom::Current(d) => self.pos as i128 + d as i128,
			SeekFrom::End(d) => self.data.len() as i128 + d as i128,
		};
		if np < 0 {
			return Err(io::Error::new(io::ErrorKind::InvalidInput, "negative seek"));
		}
		// like a file: seeking past the end is allowed, reads then return 0
		self.pos = (np as usize).min(usize::MAX / 2);
		if self.pos > self.data.len() {
			self.pos = self.data.len() + (self.pos - self.data.len()).min(1 << 40);
			// reads past the end return 0: keep pos but clamp for slicing
		}
		Ok(np as u64)
	}
}

// ---------------------------------------------------------------------------------------------
// A reader that follows a schedule of steps, exactly as Model/Frag.v `fread`: g<k> delivers at most max(1,k)
// bytes, i is Err(Interrupted), f is another I/O error; every read() call consumes one entry; when the schedule is
// exhausted reads are unfragmented.
#[derive(Clone, Copy)]
pub enum Step {
	Give(usize),
	Interrupt,
	Fault,
}
pub struct SchedReader {
	data: Vec<u8>,
	pos: usize,
	sched: Vec<Step>,
	k: usize,
}
impl SchedReader {
	pub fn new(data: Vec<u8>, sched: Vec<Step>) -> Self {
		SchedReader { data, pos: 0, sched, k: 0 }
	}
	pub fn consumed(&self) -> usize {
		self.pos.min(self.data.len())
	}
	pub fn left(&self) -> usize {
		self.sched.len() - self.k.min(self.sched.len())
	}
}
impl Read for SchedReader {
	fn read(&mut self, buf: &mut [u8]) -> io::Result<usize> {
		let rem = self.data.len().saturating_sub(self.pos);
		let mut n = buf.len().min(rem);
		if self.k < self.sched.len() {
			let st = self.sched[self.k];
			self.k += 1;
			match st {
				Step::Give(c) => n = n.min(c.max(1)),
				Step::Interrupt => return Err(io::Error::new(io::ErrorKind::Interrupted, "interrupted")),
				Step::Fault => return Err(io::Error::new(io::ErrorKind::Other, "injected fault")),
			}
		}
		buf[..n].copy_from_slice(&self.data[self.pos..self.pos + n]);
		self.pos += n;
		Ok(n)
	}
}
impl Seek for SchedReader {
	fn seek(&mut self, pos: SeekFrom) -> io::Result<u64> {
		let np: i128 = match pos {
			SeekFrom::Start(p) => p as i128,
			SeekFrom::Current(d) => self.pos as i128 + d as i128,
			SeekFrom::End(d) => self.data.len() as i128 + d as i128,
		};
		if np < 0 {
			return Err(io::Error::new(io::ErrorKind::InvalidInput, "negative seek"));
		}
		self.pos = (np as usize).min(self.data.len() + (1 << 40));
		Ok(np as u64)
	}
}
pub fn parse_sched(s: &str) -> Vec<Step> {
	if s == "-" {
		return vec![];
	}
	s.split(',')
		.map(|x| match x.as_bytes()[0] {
			b'i' => Step::Interrupt,
			b'f' => Step::Fault,
			_ => Step::Give(x[1..].parse().unwrap()),
		})
		.collect()
}

// rexact: <hex> <sched> <sizes>   std::io::Read::read_exact calls of the given sizes over the schedule
fn m_rexact(f: &[String]) -> String {
	let data = unhex(&f[0]);
	let mut r = SchedReader::new(data, parse_sched(&f[1]));
	let mut out = String::new();
	for (i, n) in parse_chunks(&f[2]).into_iter().enumerate() {
		let mut buf = vec![0u8; n];
		match r.read_exact(&mut buf) {
			Ok(()) => writeln!(out, "r{}=ok:{} pos={} left={}", i, hex(&buf), r.consumed(), r.left()).unwrap(),
			Err(_) => writeln!(out, "r{}=err pos={} left={}", i, r.consumed(), r.left()).unwrap(),
		}
	}
	out
}

// readsched: <hex> <opts> <sched>   slippi::read over the schedule (interrupts and faults included)
fn m_readsched(f: &[String]) -> String {
	let data = unhex(&f[0]);
	let opts = slp_opts(&f[1]);
	let total = data.len();
	let mut r = SchedReader::new(data, parse_sched(&f[2]));
	let mut out = String::new();
	match slippi::read(&mut r, Some(&opts)) {
		Ok(g) => {
			writeln!(out, "OK").unwrap();
			writeln!(out, "consumed={}/{}", r.consumed().min(total), total).unwrap();
			writeln!(out, "err.sched_left={}", r.left()).unwrap();
			dump_game(&mut out, &g);
		}
		Err(e) => {
			writeln!(out, "{}", err_class(&e)).unwrap();
			writeln!(out, "consumed={}/{}", r.consumed().min(total), total).unwrap();
			writeln!(out, "err.sched_left={}", r.left()).unwrap();
		}
	}
	out
}

fn parse_chunks(s: &str) -> Vec<usize> {
	if s == "-" {
		vec![]
	} else {
		s.split(',').map(|x| x.parse().unwrap()).collect()
	}
}
fn parse_opt_usize(s: &str) -> Option<usize> {
	if s == "-" {
		None
	} else {
		Some(s.parse().unwrap())
	}
}

fn slp_opts(s: &str) -> slippi::de::Opts {
	slippi::de::Opts {
		skip_frames: s.contains('s'),
		compute_hash: s.contains('h'),
		debug: None,
	}
}

// ---------------------------------------------------------------------------------------------
// dumps

fn bitmap_s(v: Option<Vec<bool>>) -> String {
	match v {
		None => "none".to_string(),
		// "None means all valid": an all-true bitmap is the same observation as no bitmap
		Some(b) if b.iter().all(|x| *x) => "none".to_string(),
		Some(b) => {
			let s: String = b.iter().map(|x| if *x { '1' } else { '0' }).collect();
			format!("[{}]", s)
		}
	}
}

fn dump_start_end(out: &mut String, start: &game::Start, end: &Option<game::End>) {
	writeln!(out, "start.bytes={}", hex(&start.bytes.0)).unwrap();
	writeln!(
		out,
		"start.json={}",
		cjson_s(&serde_json::to_value(start).unwrap())
	)
	.unwrap();
	match end {
		None => writeln!(out, "end=none").unwrap(),
		Some(e) => {
			writeln!(out, "end.bytes={}", hex(&e.bytes.0)).unwrap();
			writeln!(out, "end.json={}", cjson_s(&serde_json::to_value(e).unwrap())).unwrap();
		}
	}
}

fn dump_meta(
	out: &mut String,
	metadata: &Option<serde_json::Map<String, serde_json::Value>>,
	gecko: &Option<game::GeckoCodes>,
) {
	match metadata {
		None => writeln!(out, "metadata=none").unwrap(),
		Some(m) => writeln!(
			out,
			"metadata={}",
			cjson_s(&serde_json::Value::Object(m.clone()))
		)
		.unwrap(),
	}
	match gecko {
		None => writeln!(out, "gecko=none").unwrap(),
		Some(g) => writeln!(out, "gecko={}:{}", g.actual_size, hex(&g.bytes)).unwrap(),
	}
}

macro_rules! dump_frames_body {
	($out:expr, $f:expr, $bm:expr, $offs:expr) => {{
		let f = $f;
		let out = $out;
		writeln!(out, "frames.len={}", f.id.len()).unwrap();
		writeln!(
			out,
			"ids={}",
			f.id.values().iter().map(|x| x.to_string()).collect::<Vec<_>>().join(",")
		)
		.unwrap();
		writeln!(out, "nports={}", f.ports.len()).unwrap();
		for (k, p) in f.ports.iter().enumerate() {
			writeln!(out, "port[{}].port={}", k, p.port as u8).unwrap();
			{
				let d = &p.leader;
				let lab = format!("port[{}].leader", k);
				writeln!(out, "{}.validity={}", lab, bitmap_s($bm(&d.validity))).unwrap();
				let mut c: Cols = vec![];
				d_pre!(c, d.pre);
				print_cols(out, &format!("{}.pre", lab), &c);
				let mut c: Cols = vec![];
				d_post!(c, d.post);
				print_cols(out, &format!("{}.post", lab), &c);
			}
			match &p.follower {
				None => writeln!(out, "port[{}].follower=none", k).unwrap(),
				Some(d) => {
					let lab = format!("port[{}].follower", k);
					writeln!(out, "{}.validity={}", lab, bitmap_s($bm(&d.validity))).unwrap();
					let mut c: Cols = vec![];
					d_pre!(c, d.pre);
					print_cols(out, &format!("{}.pre", lab), &c);
					let mut c: Cols = vec![];
					d_post!(c, d.post);
					print_cols(out, &format!("{}.post", lab), &c);
				}
			}
		}
		match &f.start {
			None => writeln!(out, "fstart=none").unwrap(),
			Some(s) => {
				let mut c: Cols = vec![];
				d_start!(c, s);
				print_cols(out, "fstart", &c);
			}
		}
		match &f.end {
			None => writeln!(out, "fend=none").unwrap(),
			Some(s) => {
				let mut c: Cols = vec![];
				d_end!(c, s);
				print_cols(out, "fend", &c);
				writeln!(out, "fend.validity={}", bitmap_s($bm(&s.validity))).unwrap();
			}
		}
		match &f.item_offset {
			None => writeln!(out, "item_offset=none").unwrap(),
			Some(o) => writeln!(
				out,
				"item_offset={}",
				$offs(o).iter().map(|x| x.to_string()).collect::<Vec<_>>().join(",")
			)
			.unwrap(),
		}
		match &f.item {
			None => writeln!(out, "item=none").unwrap(),
			Some(s) => {
				let mut c: Cols = vec![];
				d_item!(c, s);
				print_cols(out, "item", &c);
			}
		}
	}};
}

pub fn dump_frames_imm(out: &mut String, f: &immutable::Frame) {
	let bm = |v: &Option<arrow2::bitmap::Bitmap>| v.as_ref().map(|b| b.iter().collect::<Vec<bool>>());
	let offs = |o: &arrow2::offset::OffsetsBuffer<i32>| o.buffer().iter().copied().collect::<Vec<i32>>();
	dump_frames_body!(out, f, bm, offs);
}

pub fn dump_frames_mut(out: &mut String, f: &mutable::Frame) {
	let bm = |v: &Option<arrow2::bitmap::MutableBitmap>| {
		v.as_ref().map(|b| b.iter().collect::<Vec<bool>>())
	};
	let offs = |o: &arrow2::offset::Offsets<i32>| o.as_slice().to_vec();
	dump_frames_body!(out, f, bm, offs);
}

pub fn dump_game(out: &mut String, g: &Game) {
	dump_start_end(out, &g.start, &g.end);
	dump_meta(out, &g.metadata, &g.gecko_codes);
	match &g.hash {
		None => writeln!(out, "hash=none").unwrap(),
		Some(h) => writeln!(out, "hash={}", h).unwrap(),
	}
	match &g.quirks {
		None => writeln!(out, "quirks=none").unwrap(),
		Some(q) => writeln!(out, "quirks={}", if q.double_game_end { 1 } else { 0 }).unwrap(),
	}
	dump_frames_imm(out, &g.frames);
}

fn err_class(e: &peppi::io::Error) -> &'static str {
	use peppi::io::Error::*;
	match e {
		InvalidData(_) => "ERR invalid",
		Io(_) => "ERR io",
		Arrow(_) => "ERR arrow",
		Json(_) => "ERR json",
		Utf8(_) => "ERR utf8",
	}
}

fn emsg(e: &dyn std::fmt::Display) -> String {
	format!("{}", e).replace('\n', " ")
}

// ---------------------------------------------------------------------------------------------
// modes

// read: <hex> <opts> <chunks> <fail>
fn m_read(f: &[String]) -> String {
	let data = unhex(&f[0]);
	let opts = slp_opts(&f[1]);
	let chunks = parse_chunks(f.get(2).map(|s| s.as_str()).unwrap_or("-"));
	let fail = parse_opt_usize(f.get(3).map(|s| s.as_str()).unwrap_or("-"));
	let total = data.len();
	let mut r = FragReader::new(data, chunks, fail);
	let mut out = String::new();
	// 'N' in the option string: call with opts = None (the API's own defaults)
	let o = if f[1].contains('N') { None } else { Some(&opts) };
	match slippi::read(&mut r, o) {
		Ok(g) => {
			writeln!(out, "OK").unwrap();
			writeln!(out, "consumed={}/{}", r.consumed().min(total), total).unwrap();
			dump_game(&mut out, &g);
		}
		Err(e) => {
			writeln!(out, "{}", err_class(&e)).unwrap();
			writeln!(out, "err.msg={}", emsg(&e)).unwrap();
		}
	}
	out
}

fn write_slp(g: &Game) -> Result<Vec<u8>, String> {
	let mut buf = Vec::new();
	match slippi::write(&mut buf, g) {
		Ok(()) => Ok(buf),
		Err(e) => Err(format!("{}\nerr.msg={}", err_class(&e), emsg(&e))),
	}
}

// rt: <hex> <opts>   read -> write -> read -> write
fn m_rt(f: &[String]) -> String {
	let data = unhex(&f[0]);
	let opts = slp_opts(&f[1]);
	let mut out = String::new();
	let g = match slippi::read(io::Cursor::new(&data), Some(&opts)) {
		Ok(g) => g,
		Err(e) => {
			writeln!(out, "{}", err_class(&e)).unwrap();
			return out;
		}
	};
	writeln!(out, "OK").unwrap();
	let w1 = match write_slp(&g) {
		Ok(b) => b,
		Err(s) => {
			writeln!(out, "write1={}", s).unwrap();
			return out;
		}
	};
	writeln!(out, "write1={}", hex(&w1)).unwrap();
	writeln!(out, "identical={}", if w1 == data { 1 } else { 0 }).unwrap();
	let mut d1 = String::new();
	dump_game(&mut d1, &g);
	let g2 = match slippi::read(io::Cursor::new(&w1), Some(&opts)) {
		Ok(g) => g,
		Err(e) => {
			writeln!(out, "read2={}", err_class(&e)).unwrap();
			writeln!(out, "err.msg={}", emsg(&e)).unwrap();
			return out;
		}
	};
	let mut d2 = String::new();
	dump_game(&mut d2, &g2);
	writeln!(out, "read2=OK").unwrap();
	writeln!(out, "same_game={}", if d1 == d2 { 1 } else { 0 }).unwrap();
	match write_slp(&g2) {
		Ok(b) => writeln!(out, "write2_eq={}", if b == w1 { 1 } else { 0 }).unwrap(),
		Err(s) => writeln!(out, "write2={}", s).unwrap(),
	}
	out
}

// incr: <hex> <chunks> <verbose 0/1> [a]
fn m_incr(f: &[String]) -> String {
	use slippi::de::{parse_event, parse_header, parse_metadata, parse_start};
	let data = unhex(&f[0]);
	let chunks = parse_chunks(&f[1]);
	let verbose = f.get(2).map(|s| s == "1").unwrap_or(false);
	// "a": keep calling parse_event until bytes_read reaches the declared length (do not stop at the first Game End)
	let all = f.get(3).map(|s| s == "a").unwrap_or(false);
	let mut r = FragReader::new(data, chunks, None);
	let mut out = String::new();
	let raw_len = match parse_header(&mut r, None) {
		Ok(n) => n as usize,
		Err(e) => {
			writeln!(out, "header={}", err_class(&e)).unwrap();
			return out;
		}
	};
	writeln!(out, "header=OK raw_len={} consumed={}", raw_len, r.consumed()).unwrap();
	let mut st = match parse_start(&mut r, None) {
		Ok(s) => s,
		Err(e) => {
			writeln!(out, "start={}", err_class(&e)).unwrap();
			return out;
		}
	};
	writeln!(
		out,
		"start=OK br={} consumed={} len={}",
		st.bytes_read(),
		r.consumed(),
		st.frames().len()
	)
	.unwrap();
	let mut n = 0usize;
	while raw_len == 0 || st.bytes_read() < raw_len {
		match parse_event(&mut r, &mut st, None) {
			Ok(code) => {
				writeln!(
					out,
					"ev[{}]={} br={} consumed={} len={}",
					n,
					code,
					st.bytes_read(),
					r.consumed(),
					st.frames().len()
				)
				.unwrap();
				if verbose {
					let mut d = String::new();
					dump_frames_mut(&mut d, st.frames());
					for l in d.lines() {
						writeln!(out, "  s[{}] {}", n, l).unwrap();
					}
				}
				n += 1;
				if code == 0x39 && !all {
					break;
				}
			}
			Err(e) => {
				writeln!(out, "ev[{}]={}", n, err_class(&e)).unwrap();
				return out;
			}
		}
	}
	// tail as in read(): skip to raw_len, then metadata or closing brace
	if st.bytes_read() < raw_len {
		let mut buf = vec![0; raw_len - st.bytes_read()];
		if let Err(e) = r.read_exact(&mut buf) {
			{ let _ = e; writeln!(out, "tail=ERR").unwrap(); }
			return out;
		}
	}
	let mut b = [0u8; 1];
	match r.read_exact(&mut b) {
		Err(_) => {
			writeln!(out, "tail=ERR").unwrap();
			return out;
		}
		Ok(()) => {}
	}
	if b[0] == 0x55 {
		match parse_metadata(&mut r, &mut st, None) {
			Ok(()) => writeln!(out, "metadata=OK consumed={}", r.consumed()).unwrap(),
			Err(e) => {
				writeln!(out, "metadata={}", err_class(&e)).unwrap();
				return out;
			}
		}
	} else {
		writeln!(out, "metadata=absent byte={}", b[0]).unwrap();
	}
	writeln!(out, "final").unwrap();
	dump_start_end(&mut out, st.start(), st.end());
	dump_meta(&mut out, st.metadata(), st.gecko_codes());
	dump_frames_mut(&mut out, st.frames());
	out
}

fn comp(s: &str) -> Option<Compression> {
	match s {
		"l" => Some(Compression::LZ4),
		"z" => Some(Compression::ZSTD),
		_ => None,
	}
}

fn write_slpp(g: Game, c: &str) -> Result<Vec<u8>, String> {
	let mut buf = Vec::new();
	let o = ppi::ser::Opts {
		compression: comp(c),
	};
	match ppi::write(&mut buf, g, Some(&o)) {
		Ok(()) => Ok(buf),
		Err(e) => Err(format!("ERR {}", emsg(&e))),
	}
}

// slpp: <slp hex> <slp opts> <compression n|l|z> <slpp opts: s or -> <emit archive 0/1>
fn m_slpp(f: &[String]) -> String {
	let data = unhex(&f[0]);
	let opts = slp_opts(&f[1]);
	let mut out = String::new();
	let o = if f[1].contains('N') { None } else { Some(&opts) };
	let g = match slippi::read(io::Cursor::new(&data), o) {
		Ok(g) => g,
		Err(e) => {
			writeln!(out, "{}", err_class(&e)).unwrap();
			return out;
		}
	};
	writeln!(out, "OK").unwrap();
	let mut d1 = String::new();
	dump_game(&mut d1, &g);
	let arch = match write_slpp(g, &f[2]) {
		Ok(b) => b,
		Err(s) => {
			writeln!(out, "slpp.write={}", s).unwrap();
			return out;
		}
	};
	writeln!(out, "slpp.write=OK len={}", arch.len()).unwrap();
	if f.get(4).map(|s| s == "1").unwrap_or(false) {
		writeln!(out, "slpp.bytes={}", hex(&arch)).unwrap();
	}
	let po = ppi::de::Opts {
		skip_frames: f[3].contains('s'),
	};
	let g2 = match ppi::read(io::Cursor::new(&arch), if f[3].contains('N') { None } else { Some(&po) }) {
		Ok(g) => g,
		Err(e) => {
			writeln!(out, "slpp.read={}", err_class(&e)).unwrap();
			writeln!(out, "err.msg={}", emsg(&e)).unwrap();
			return out;
		}
	};
	writeln!(out, "slpp.read=OK").unwrap();
	let mut d2 = String::new();
	dump_game(&mut d2, &g2);
	writeln!(out, "same_game={}", if d1 == d2 { 1 } else { 0 }).unwrap();
	if d1 != d2 {
		for (a, b) in d1.lines().zip(d2.lines()) {
			if a != b {
				writeln!(out, "diff.a={}", &a[..a.len().min(300)]).unwrap();
				writeln!(out, "diff.b={}", &b[..b.len().min(300)]).unwrap();
				break;
			}
		}
	}
	match write_slp(&g2) {
		Ok(b) => {
			writeln!(out, "slp2_identical={}", if b == data { 1 } else { 0 }).unwrap();
			writeln!(out, "slp2.len={}", b.len()).unwrap();
		}
		Err(s) => writeln!(out, "slp2={}", s).unwrap(),
	}
	// determinism
	out.push_str(&d2_game_lines(&g2));
	out
}

fn d2_game_lines(g: &Game) -> String {
	let mut out = String::new();
	match &g.hash {
		None => writeln!(out, "g2.hash=none").unwrap(),
		Some(h) => writeln!(out, "g2.hash={}", h).unwrap(),
	}
	match &g.quirks {
		None => writeln!(out, "g2.quirks=none").unwrap(),
		Some(q) => writeln!(out, "g2.quirks={}", if q.double_game_end { 1 } else { 0 }).unwrap(),
	}
	out
}

// slppread: <archive hex> <opts s|->  <dump 0/1>
fn m_slppread(f: &[String]) -> String {
	let data = unhex(&f[0]);
	let po = ppi::de::Opts {
		skip_frames: f[1].contains('s'),
	};
	let mut out = String::new();
	match ppi::read(io::Cursor::new(&data), if f[1].contains('N') { None } else { Some(&po) }) {
		Ok(g) => {
			writeln!(out, "OK").unwrap();
			if f.get(2).map(|s| s == "1").unwrap_or(true) {
				dump_game(&mut out, &g);
			}
			match write_slp(&g) {
				Ok(b) => writeln!(out, "slp={}", hex(&b)).unwrap(),
				Err(s) => writeln!(out, "slp={}", s).unwrap(),
			}
		}
		Err(e) => {
			writeln!(out, "{}", err_class(&e)).unwrap();
			writeln!(out, "err.msg={}", emsg(&e)).unwrap();
		}
	}
	out
}

// ver: gte <a> <b> <c> <M> <m> | parse <hexstr> | show <a> <b> <c> | pparse <hexstr> | pshow a b c
fn m_ver(f: &[String]) -> String {
	use std::str::FromStr;
	let n = |i: usize| f[i].parse::<u8>().unwrap();
	let mut out = String::new();
	match f[0].as_str() {
		"gte" => {
			let v = slippi::Version(n(1), n(2), n(3));
			writeln!(
				out,
				"gte={} lt={}",
				v.gte(n(4), n(5)) as u8,
				v.lt(n(4), n(5)) as u8
			)
			.unwrap();
		}
		"parse" => {
			let s = String::from_utf8(unhex(&f[1])).unwrap();
			match slippi::Version::from_str(&s) {
				Ok(v) => writeln!(out, "OK {} {} {}", v.0, v.1, v.2).unwrap(),
				Err(_) => writeln!(out, "ERR").unwrap(),
			}
		}
		"pparse" => {
			let s = String::from_utf8(unhex(&f[1])).unwrap();
			match ppi::Version::from_str(&s) {
				Ok(v) => writeln!(out, "OK {} {} {}", v.0, v.1, v.2).unwrap(),
				Err(_) => writeln!(out, "ERR").unwrap(),
			}
		}
		"show" => {
			let v = slippi::Version(n(1), n(2), n(3));
			writeln!(out, "{}", hex(format!("{}", v).as_bytes())).unwrap();
		}
		"pshow" => {
			let v = ppi::Version(n(1), n(2), n(3));
			writeln!(out, "{}", hex(format!("{}", v).as_bytes())).unwrap();
		}
		_ => panic!("bad ver submode"),
	}
	out
}

// gtesweep: <a_lo> <a_hi> <b_lo> <b_hi> : for all v=(a,b,0) in range and all (M,m) in 0..=255^2 count
// disagreements with nothing -- prints a run-length encoding of gte over (M,m) in lexicographic order.
fn m_gtesweep(f: &[String]) -> String {
	let n = |i: usize| f[i].parse::<u32>().unwrap();
	let mut out = String::new();
	for a in n(0)..=n(1) {
		for b in n(2)..=n(3) {
			let v = slippi::Version(a as u8, b as u8, 0);
			// gte(v,M,m) as M,m vary lexicographically: expect a single true->false transition
			let mut runs: Vec<(bool, u32)> = vec![];
			let mut neg_ok = true;
			for mm in 0..=255u32 {
				for m in 0..=255u32 {
					let g = v.gte(mm as u8, m as u8);
					if v.lt(mm as u8, m as u8) == g {
						neg_ok = false;
					}
					match runs.last_mut() {
						Some((x, c)) if *x == g => *c += 1,
						_ => runs.push((g, 1)),
					}
				}
			}
			let rl: Vec<String> = runs.iter().map(|(g, c)| format!("{}x{}", *g as u8, c)).collect();
			writeln!(out, "v={}.{} runs={} neg={}", a, b, rl.join(";"), neg_ok as u8).unwrap();
		}
	}
	out
}

// textsweep: <a_lo> <a_hi>: display/parse round trip for all (a,b,c) with a in range; prints count of
// failures and the first few
fn m_textsweep(f: &[String]) -> String {
	use std::str::FromStr;
	let lo: u32 = f[0].parse().unwrap();
	let hi: u32 = f[1].parse().unwrap();
	let mut bad = 0u64;
	let mut n = 0u64;
	let mut out = String::new();
	for a in lo..=hi {
		for b in 0..=255u32 {
			for c in 0..=255u32 {
				n += 1;
				let v = slippi::Version(a as u8, b as u8, c as u8);
				let s = format!("{}", v);
				let expect = format!("{}.{}.{}", a, b, c);
				let ok = s == expect
					&& matches!(slippi::Version::from_str(&s), Ok(w) if w == v)
					&& matches!(ppi::Version::from_str(&format!("{}", ppi::Version(a as u8, b as u8, c as u8))), Ok(w) if w == ppi::Version(a as u8, b as u8, c as u8));
				if !ok {
					bad += 1;
					if bad < 5 {
						writeln!(out, "bad={}.{}.{}", a, b, c).unwrap();
					}
				}
			}
		}
	}
	writeln!(out, "n={} bad={}", n, bad).unwrap();
	out
}

// maxver: <base slp hex with zero frames> <off of version bytes> <list of a.b.c,...>
// patches the version in the start block, reads, runs both writers
fn m_maxver(f: &[String]) -> String {
	let base = unhex(&f[0]);
	let off: usize = f[1].parse().unwrap();
	let mut out = String::new();
	for t in f[2].split(',') {
		let p: Vec<u8> = t.split('.').map(|x| x.parse().unwrap()).collect();
		let mut d = base.clone();
		d[off] = p[0];
		d[off + 1] = p[1];
		d[off + 2] = p[2];
		let r = classify_writers(&d);
		writeln!(out, "{} {}", t, r).unwrap();
	}
	out
}

fn classify_writers(d: &[u8]) -> String {
	let g = match slippi::read(io::Cursor::new(d), None) {
		Ok(g) => g,
		Err(_) => return "read=ERR".to_string(),
	};
	let a = match std::panic::catch_unwind(std::panic::AssertUnwindSafe(|| write_slp(&g))) {
		Ok(Ok(_)) => "OK",
		Ok(Err(_)) => "ERR",
		Err(_) => "PANIC",
	};
	let mut res = format!("slp={}", a);
	for c in ["n", "l", "z"] {
		let g = slippi::read(io::Cursor::new(d), None).unwrap();
		let b = match std::panic::catch_unwind(std::panic::AssertUnwindSafe(|| write_slpp(g, c))) {
			Ok(Ok(_)) => "OK",
			Ok(Err(_)) => "ERR",
			Err(_) => "PANIC",
		};
		res.push_str(&format!(" slpp.{}={}", c, b));
	}
	res
}

// maxsweep: <base hex> <off> <a_lo> <a_hi> <with_slpp 0/1>: all (a,b,c), RLE of the outcome in lexicographic order
fn m_maxsweep(f: &[String]) -> String {
	let base = unhex(&f[0]);
	let off: usize = f[1].parse().unwrap();
	let lo: u32 = f[2].parse().unwrap();
	let hi: u32 = f[3].parse().unwrap();
	let with_slpp = f[4] == "1";
	let mut runs: Vec<(String, u64, String)> = vec![];
	for a in lo..=hi {
		for b in 0..=255u32 {
			for c in 0..=255u32 {
				let mut d = base.clone();
				d[off] = a as u8;
				d[off + 1] = b as u8;
				d[off + 2] = c as u8;
				let r = if with_slpp {
					classify_writers(&d)
				} else {
					match slippi::read(io::Cursor::new(&d), None) {
						Ok(g) => match write_slp(&g) {
							Ok(_) => "slp=OK".to_string(),
							Err(_) => "slp=ERR".to_string(),
						},
						Err(_) => "read=ERR".to_string(),
					}
				};
				match runs.last_mut() {
					Some((x, n, _)) if *x == r => *n += 1,
					_ => runs.push((r, 1, format!("{}.{}.{}", a, b, c))),
				}
			}
		}
	}
	let mut out = String::new();
	for (r, n, first) in runs {
		writeln!(out, "run from={} n={} {}", first, n, r).unwrap();
	}
	out
}

// rollbacks: <ids comma list or ->
fn m_rollbacks(f: &[String]) -> String {
	let ids: Vec<i32> = if f[0] == "-" {
		vec![]
	} else {
		f[0].split(',').map(|x| x.parse().unwrap()).collect()
	};
	let fr = immutable::Frame {
		id: PrimitiveArray::from_vec(ids),
		ports: vec![],
		start: None,
		end: None,
		item_offset: None,
		item: None,
	};
	let s = |v: Vec<bool>| v.iter().map(|x| if *x { '1' } else { '0' }).collect::<String>();
	let mut out = String::new();
	let a = std::panic::catch_unwind(std::panic::AssertUnwindSafe(|| fr.rollbacks(Rollbacks::ExceptFirst)));
	let b = std::panic::catch_unwind(std::panic::AssertUnwindSafe(|| fr.rollbacks(Rollbacks::ExceptLast)));
	match a {
		Ok(v) => writeln!(out, "first=[{}]", s(v)).unwrap(),
		Err(_) => writeln!(out, "first=PANIC").unwrap(),
	}
	match b {
		Ok(v) => writeln!(out, "last=[{}]", s(v)).unwrap(),
		Err(_) => writeln!(out, "last=PANIC").unwrap(),
	}
	out
}

// rbgame: <slp hex>: the rollback masks of the game the reader returns (columns as parsed, not rebuilt)
fn m_rbgame(f: &[String]) -> String {
	let data = unhex(&f[0]);
	let mut out = String::new();
	let g = match slippi::read(io::Cursor::new(&data), None) {
		Ok(g) => g,
		Err(e) => {
			writeln!(out, "{}", err_class(&e)).unwrap();
			return out;
		}
	};
	writeln!(out, "OK").unwrap();
	let ids: Vec<String> = g.frames.id.values().iter().map(|x| x.to_string()).collect();
	writeln!(out, "ids={}", ids.join(",")).unwrap();
	let s = |v: Vec<bool>| v.iter().map(|x| if *x { '1' } else { '0' }).collect::<String>();
	let a = std::panic::catch_unwind(std::panic::AssertUnwindSafe(|| g.frames.rollbacks(Rollbacks::ExceptFirst)));
	let b = std::panic::catch_unwind(std::panic::AssertUnwindSafe(|| g.frames.rollbacks(Rollbacks::ExceptLast)));
	match a {
		Ok(v) => writeln!(out, "first=[{}]", s(v)).unwrap(),
		Err(_) => writeln!(out, "first=PANIC").unwrap(),
	}
	match b {
		Ok(v) => writeln!(out, "last=[{}]", s(v)).unwrap(),
		Err(_) => writeln!(out, "last=PANIC").unwrap(),
	}
	out
}

// sjis: <hex bytes>
fn m_sjis(f: &[String]) -> String {
	let b = unhex(&f[0]);
	let mut out = String::new();
	match MeleeString::try_from(b.as_slice()) {
		Ok(s) => {
			writeln!(out, "OK {}", if s.0.is_empty() { "-".to_string() } else { hex(s.0.as_bytes()) }).unwrap();
			let has_repl = s.0.contains('\u{fffd}');
			writeln!(out, "repl={}", has_repl as u8).unwrap();
		}
		Err(_) => writeln!(out, "ERR").unwrap(),
	}
	out
}

// norm: <lo> <hi> : all scalar values in [lo,hi]; prints the non-identity pairs and idempotence failures
fn m_norm(f: &[String]) -> String {
	let lo: u32 = f[0].parse().unwrap();
	let hi: u32 = f[1].parse().unwrap();
	let mut out = String::new();
	let mut n = 0u64;
	for c in lo..=hi {
		if let Some(ch) = char::from_u32(c) {
			n += 1;
			let s = MeleeString(ch.to_string());
			let r = s.to_normalized();
			let rc: Vec<u32> = r.chars().map(|x| x as u32).collect();
			if rc != vec![c] {
				writeln!(out, "map {} -> {}", c, rc.iter().map(|x| x.to_string()).collect::<Vec<_>>().join(",")).unwrap();
			}
			let r2 = MeleeString(r.clone()).to_normalized();
			if r2 != r {
				writeln!(out, "nonidem {}", c).unwrap();
			}
		}
	}
	writeln!(out, "scalars={}", n).unwrap();
	out
}

// normstr: <hex utf8>
fn m_normstr(f: &[String]) -> String {
	let s = String::from_utf8(unhex(&f[0])).unwrap();
	let r = MeleeString(s).to_normalized();
	format!("{}\n", if r.is_empty() { "-".to_string() } else { hex(r.as_bytes()) })
}

// xxh: <hex> one-shot xxh3-64 of the bytes (oracle for C11, different code path from streaming)
fn m_xxh(f: &[String]) -> String {
	let b = unhex(&f[0]);
	format!("xxh3:{:016x}\n", xxhash_rust::xxh3::xxh3_64(&b))
}

pub fn dispatch(mode: &str, f: &[String]) -> String {
	match mode {
		"read" => m_read(f),
		"rt" => m_rt(f),
		"incr" => m_incr(f),
		"slpp" => m_slpp(f),
		"slppread" => m_slppread(f),
		"ver" => m_ver(f),
		"gtesweep" => m_gtesweep(f),
		"textsweep" => m_textsweep(f),
		"maxver" => m_maxver(f),
		"maxsweep" => m_maxsweep(f),
		"rollbacks" => m_rollbacks(f),
		"sjis" => m_sjis(f),
		"norm" => m_norm(f),
		"normstr" => m_normstr(f),
		"xxh" => m_xxh(f),
		"rbgame" => m_rbgame(f),
		"rexact" => m_rexact(f),
		"readsched" => m_readsched(f),
		"view" => crate::modes_view::m_view(f),
		"arrow" => crate::modes_view::m_arrow(f),
		_ => panic!("unknown mode {}", mode),
	}
}
