// pvh: runs the real peppi library (path dependency on /repo) on case files and prints canonical
// observations, one block per case:   == <case id>\n<lines>\n
// Every case runs in its own thread under catch_unwind with a watchdog, so a panic is PANIC and a
// hang is HANG; a process abort is detected by the orchestrator from the last "== id" line.
mod dump;
mod modes;
mod modes_view;

use std::io::{BufRead, Write};
use std::sync::mpsc;
use std::time::Duration;

fn run_case(mode: &str, id: &str, fields: Vec<String>, timeout_ms: u64) -> String {
	let (tx, rx) = mpsc::channel();
	let mode = mode.to_string();
	let _id = id.to_string();
	let h = std::thread::Builder::new()
		.stack_size(8 << 20)
		.spawn(move || {
			let r = std::panic::catch_unwind(std::panic::AssertUnwindSafe(|| {
				modes::dispatch(&mode, &fields)
			}));
			let s = match r {
				Ok(s) => s,
				Err(e) => {
					let msg = if let Some(s) = e.downcast_ref::<&str>() {
						s.to_string()
					} else if let Some(s) = e.downcast_ref::<String>() {
						s.clone()
					} else {
						"?".to_string()
					};
					format!("PANIC\npanic.msg={}\n", msg.replace('\n', " "))
				}
			};
			let _ = tx.send(s);
		})
		.unwrap();
	match rx.recv_timeout(Duration::from_millis(timeout_ms)) {
		Ok(s) => {
			let _ = h.join();
			s
		}
		Err(_) => "HANG\n".to_string(),
	}
}

fn main() {
	let args: Vec<String> = std::env::args().collect();
	if args.len() < 3 {
		eprintln!("usage: pvh <mode> <casefile> [timeout_ms]");
		std::process::exit(2);
	}
	let mode = &args[1];
	let timeout_ms: u64 = args.get(3).map(|s| s.parse().unwrap()).unwrap_or(8000);
	std::panic::set_hook(Box::new(|_| {}));
	let f = std::fs::File::open(&args[2]).expect("case file");
	let out = std::io::stdout();
	// a hung case leaves a spinning thread behind; after a few of them the verdict is clear and the remaining
	// cases of this file are reported as SKIPPED-AFTER-HANGS instead of waiting out one timeout each
	let mut hangs = 0usize;
	for line in std::io::BufReader::new(f).lines() {
		let line = line.unwrap();
		let line = line.trim();
		if line.is_empty() || line.starts_with('#') {
			continue;
		}
		let mut it = line.split_whitespace();
		let id = it.next().unwrap().to_string();
		let fields: Vec<String> = it.map(|s| s.to_string()).collect();
		{
			let mut o = out.lock();
			writeln!(o, "== {}", id).unwrap();
			o.flush().unwrap();
		}
		let s = if hangs >= 3 {
			"SKIPPED-AFTER-HANGS\n".to_string()
		} else {
			run_case(mode, &id, fields, timeout_ms)
		};
		if s.starts_with("HANG") {
			hangs += 1;
		}
		let mut o = out.lock();
		o.write_all(s.as_bytes()).unwrap();
		o.flush().unwrap();
	}
	let mut o = out.lock();
	writeln!(o, "== END").unwrap();
	o.flush().unwrap();
	// leaked (hung) threads must not keep the process alive
	std::process::exit(0);
}
