#!/bin/sh
# run every claimed check (quick) on the current tree, so that the committed evidence is from clean runs
cd "$(dirname "$0")"
python3 tools/mkmanifest.py
fail=0
for id in $(python3 -c "import json;print(' '.join(c['property_id'] for c in json.load(open('MANIFEST.json'))['checks']))"); do
  ./check $id ${1:-quick} | tail -1 || fail=1
done
exit $fail
